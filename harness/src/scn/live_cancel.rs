//! C09: cancellation (live mode).
//!
//! family `cancel`      : one target coroutine in coroutine::park / park_timeout / sleep / yield_now, a canceller
//!                        (thread or coroutine) fires `cancel()` after a seeded delay or at a seeded progress count of
//!                        the target, optionally racing with an unparker thread.
//! family `cancel_mutex`: coroutines and threads lock/unlock one may::sync::Mutex while some of the coroutines get
//!                        cancelled at seeded moments (exercises the abort path of Mutex::lock on the real code).
use super::{spawn_actor_thread, LiveBuilt};
use crate::rt::{call, ret, Rng};
use may::coroutine;
use may::sync::Mutex;
use std::sync::atomic::{AtomicBool, AtomicUsize, Ordering};
use std::sync::Arc;
use std::time::Duration;

/// a value owned by the target's stack: must be dropped exactly once, however the coroutine ends
struct DropCounter(Arc<AtomicUsize>);
impl Drop for DropCounter {
    fn drop(&mut self) {
        self.0.fetch_add(1, Ordering::SeqCst);
    }
}

/// Ok(true) = finished normally, Ok(false) = ended by the Cancel panic, Err = any other panic
fn classify<T>(r: std::thread::Result<T>) -> Result<bool, String> {
    match r {
        Ok(_) => Ok(true),
        Err(e) => match e.downcast_ref::<generator::Error>() {
            Some(generator::Error::Cancel) => Ok(false),
            Some(other) => Err(format!("generator error {other:?}")),
            None => Err(e
                .downcast_ref::<String>()
                .cloned()
                .or(e.downcast_ref::<&str>().map(|s| s.to_string()))
                .unwrap_or_else(|| "<unknown payload>".into())),
        },
    }
}

/// a sleep that only the cancellation is meant to end (finite, so that a lost cancellation does not stall the process)
const LONG_MS: u64 = 3000;
/// a target that is still suspended this long after `cancel()` returned counts as "cancellation lost"
const LOST_MS: u64 = 1500;

/// waits for the coroutine to finish; reports a cancellation that is not honoured within LOST_MS after `cancel_ret` was
/// set (and then tries to rescue the run with an unpark, so that the process can go on with the next scenario)
fn wait_done<T>(h: &coroutine::JoinHandle<T>, cancel_ret: &AtomicBool, fails: &mut Vec<String>) {
    let mut since: Option<std::time::Instant> = None;
    let mut reported = false;
    while !h.is_done() {
        if cancel_ret.load(Ordering::SeqCst) && since.is_none() {
            since = Some(std::time::Instant::now());
        }
        if let Some(t) = since {
            if !reported && t.elapsed() > Duration::from_millis(LOST_MS) {
                reported = true;
                fails.push(format!(
                    "cancellation lost: the target is still suspended {LOST_MS} ms after cancel() returned (the event it waits for has not happened)"
                ));
                call("co.unpark", 0, 0);
                h.coroutine().unpark();
                ret("co.unpark", 0);
            }
        }
        std::thread::sleep(Duration::from_micros(200));
    }
}

#[derive(Clone, Copy, Debug)]
enum Op {
    Park,
    ParkTimeout(u64), // ms
    Sleep(u64),       // ms
    Yield(u64),       // times
}

impl Op {
    fn code(&self) -> String {
        match self {
            Op::Park => "P".into(),
            Op::ParkTimeout(ms) => format!("T{ms}"),
            Op::Sleep(ms) => format!("S{ms}"),
            Op::Yield(k) => format!("Y{k}"),
        }
    }
}

/// which order does `Sleep::subscribe` of the tree under test have: `set_co` before the coroutine is published
/// (the timer armed)? The replay model has both orders (`fx`); the header tells it which one to use.
fn subscribe_registers_first() -> bool {
    let repo = std::env::var("VERIF_REPO").unwrap_or_else(|_| "/repo".into());
    match std::fs::read_to_string(format!("{repo}/src/sleep.rs")) {
        Ok(s) => match (s.find(".set_co("), s.find(".add_timer(")) {
            (Some(a), Some(b)) => a < b,
            _ => false,
        },
        Err(_) => false,
    }
}

/// does `CancelImpl::set_co` of the tree under test look at `is_disabled()` first (F16)? (model variant `dz`)
fn set_co_checks_disabled() -> bool {
    let repo = std::env::var("VERIF_REPO").unwrap_or_else(|_| "/repo".into());
    match std::fs::read_to_string(format!("{repo}/src/cancel.rs")) {
        Ok(s) => match s.find("pub fn set_co(") {
            Some(a) => {
                let body = &s[a..];
                let end = body.find("\n    }").unwrap_or(body.len());
                body[..end].contains("is_disabled()")
            }
            None => false,
        },
        Err(_) => false,
    }
}

pub fn build(rng: &mut Rng, tier: u32) -> LiveBuilt {
    let nops = 1 + rng.below(if tier > 0 { 6 } else { 4 }) as usize;
    let unparker = rng.chance(500);
    let mut ops: Vec<Op> = (0..nops)
        .map(|_| match rng.below(4) {
            0 => Op::Park,
            1 => Op::ParkTimeout(1 + rng.below(3)),
            2 => Op::Sleep(1 + rng.below(3)),
            _ => Op::Yield(1 + rng.below(3)),
        })
        .collect();
    // most scenarios end in a wait that only the cancellation can end
    if rng.chance(700) {
        ops.push(if rng.chance(500) && !unparker { Op::Park } else { Op::Sleep(LONG_MS) });
    }
    let nops = ops.len();
    let co_canceller = rng.chance(300);
    // trigger: after a delay (0-300 us) or when the target passed `at` progress markers
    // (a coroutine canceller never polls: a yield loop on the only worker starves a target that was resumed by the timer thread)
    let by_count = rng.chance(500) && !co_canceller;
    let delay_us = rng.below(300);
    // the count trigger must be reachable: not beyond the first wait that only the cancellation can end
    let first_block = ops
        .iter()
        .position(|o| matches!(o, Op::Sleep(ms) if *ms >= LONG_MS) || (matches!(o, Op::Park) && !unparker))
        .unwrap_or(nops);
    let at = rng.below(first_block as u64 + 1) as usize;
    let ncancel = 1 + rng.below(2) as usize; // cancel() may be called more than once
    let gap_us = rng.below(300);
    let desc: Vec<String> = ops.iter().map(|o| o.code()).collect();
    // coroutine names are unique per scenario: a late kernel tail of an earlier scenario's target must not be
    // mistaken for one of this target's
    let tag = rng.below(1_000_000);
    let header = format!(
        "family=cancel tag={} fixed={} setco={} ops={} unparker={} cocancel={} trigger={} ncancel={}",
        tag,
        subscribe_registers_first() as u8,
        set_co_checks_disabled() as u8,
        desc.join(","),
        unparker as u8,
        co_canceller as u8,
        if by_count { format!("at{at}") } else { format!("us{delay_us}") },
        ncancel
    );
    LiveBuilt {
        header,
        filter: vec!["src/cancel.rs", "src/park.rs", "src/sleep.rs", "io/sys/unix/cancel.rs"],
        hang_ms: 5000,
        run: Box::new(move || {
            let mut fails = vec![];
            let drops = Arc::new(AtomicUsize::new(0));
            let progress = Arc::new(AtomicUsize::new(0));
            let done = Arc::new(AtomicBool::new(false));
            let cancel_ret = Arc::new(AtomicBool::new(false));
            let late = Arc::new(AtomicUsize::new(0)); // ops that returned normally although cancel() had returned before they began
            let (d2, p2, dn2, cr2, late2, ops2) = (drops.clone(), progress.clone(), done.clone(), cancel_ret.clone(), late.clone(), ops.clone());
            let h = unsafe {
                coroutine::Builder::new()
                    .name(format!("c1x{tag}"))
                    .spawn(move || {
                        struct SetDone(Arc<AtomicBool>);
                        impl Drop for SetDone {
                            fn drop(&mut self) {
                                self.0.store(true, Ordering::SeqCst);
                            }
                        }
                        let _sd = SetDone(dn2);
                        let _dc = DropCounter(d2);
                        for op in ops2 {
                            let before = cr2.load(Ordering::SeqCst);
                            // a wait that is certain to go through yield_with (a cancellation point)
                            let certain = match op {
                                Op::Park | Op::ParkTimeout(_) => !unparker,
                                _ => true,
                            };
                            match op {
                                Op::Park => {
                                    call("co.park", 0, 0);
                                    coroutine::park();
                                    ret("co.park", 0);
                                }
                                Op::ParkTimeout(ms) => {
                                    call("co.park", ms, 0);
                                    coroutine::park_timeout(Duration::from_millis(ms));
                                    ret("co.park", 0);
                                }
                                Op::Sleep(ms) => {
                                    call("co.sleep", ms, 0);
                                    coroutine::sleep(Duration::from_millis(ms));
                                    ret("co.sleep", 0);
                                }
                                Op::Yield(k) => {
                                    for _ in 0..k {
                                        call("co.yield", 0, 0);
                                        coroutine::yield_now();
                                        ret("co.yield", 0);
                                    }
                                }
                            }
                            if before && certain {
                                late2.fetch_add(1, Ordering::SeqCst);
                            }
                            p2.fetch_add(1, Ordering::SeqCst);
                        }
                    })
                    .unwrap()
            };
            let co = h.coroutine().clone();
            // `Sleep::subscribe` / `Park::subscribe` touch the coroutine's cancel data after publishing the coroutine; keep the
            // handle's `Inner` alive past every late kernel tail (see pending_fixes/README-C09.md: use-after-free otherwise)
            std::mem::forget(co.clone());
            // helper loops stop producing events after this long, so that a stuck target is seen by the watchdog
            let t_start = std::time::Instant::now();
            let give_up = move || t_start.elapsed() > Duration::from_secs(5);
            // canceller
            let (co_c, p_c, dn_c, cr_c) = (co.clone(), progress.clone(), done.clone(), cancel_ret.clone());
            let cancel_body = move || {
                if by_count {
                    while p_c.load(Ordering::SeqCst) < at && !dn_c.load(Ordering::SeqCst) && !give_up() {
                        std::thread::yield_now();
                    }
                } else {
                    std::thread::sleep(Duration::from_micros(delay_us));
                }
                for _ in 0..ncancel {
                    call("co.cancel", 0, 0);
                    unsafe { co_c.cancel() };
                    ret("co.cancel", 0);
                    cr_c.store(true, Ordering::SeqCst);
                }
            };
            let mut ts = vec![];
            let mut hc = None;
            if co_canceller {
                hc = Some(unsafe {
                    coroutine::Builder::new()
                        .name(format!("c2x{tag}"))
                        .spawn(cancel_body)
                        .unwrap()
                });
            } else {
                ts.push(spawn_actor_thread("t1", cancel_body));
            }
            if unparker {
                let (co_u, dn_u) = (co.clone(), done.clone());
                ts.push(spawn_actor_thread("t2", move || {
                    while !dn_u.load(Ordering::SeqCst) && !give_up() {
                        call("co.unpark", 0, 0);
                        co_u.unpark();
                        ret("co.unpark", 0);
                        std::thread::sleep(Duration::from_micros(100 + gap_us));
                    }
                }));
            }
            wait_done(&h, &cancel_ret, &mut fails);
            let res = classify(h.join());
            done.store(true, Ordering::SeqCst);
            for t in ts {
                let _ = t.join();
            }
            if let Some(hc) = hc {
                if hc.join().is_err() {
                    fails.push("the canceller coroutine (never cancelled itself) panicked".to_string());
                }
            }
            match res {
                Ok(true) => {
                    if progress.load(Ordering::SeqCst) != nops {
                        fails.push(format!("join returned Ok but the target passed {} of {} operations", progress.load(Ordering::SeqCst), nops));
                    }
                }
                Ok(false) => {}
                Err(m) => fails.push(format!("join of the target: unexpected panic payload: {m}")),
            }
            if late.load(Ordering::SeqCst) > 0 {
                fails.push(format!(
                    "cancel not honoured: {} blocking call(s) that began after cancel() had returned completed normally",
                    late.load(Ordering::SeqCst)
                ));
            }
            let d = drops.load(Ordering::SeqCst);
            if d != 1 {
                fails.push(format!("drop counter: value owned by the target's stack dropped {d} times"));
            }
            fails
        }),
    }
}

// ---------------------------------------------------------------------------------------------------------------
// family `cancel_mutex`

/// one critical section per round: lock, (optionally wait inside), unlock
#[derive(Clone, Copy, Debug)]
struct Round {
    /// what the holder does inside the critical section: 0 nothing, 1 yield_now (a cancellation point for a coroutine),
    /// 2 sleep 1 ms (coroutine) / spin 50 us (thread)
    inside: u8,
}

pub fn build_mutex(rng: &mut Rng, tier: u32) -> LiveBuilt {
    let nco = 2 + rng.below(3) as usize; // coroutines c0..
    let nth = rng.below(3) as usize; // threads t<nco>..
    let n = nco + nth + 1; // + the final probe thread
    let max_rounds = if tier > 0 { 4 } else { 3 };
    let plans: Vec<Vec<Round>> = (0..nco + nth)
        .map(|_| (0..1 + rng.below(max_rounds)).map(|_| Round { inside: [0u8, 0, 1, 2][rng.below(4) as usize] }).collect())
        .collect();
    let nvict = 1 + rng.below(2.min(nco as u64)) as usize;
    // victim k: cancelled after a delay (us) or when it passed `at` progress markers (two markers per round)
    let trig: Vec<(bool, u64, usize)> = (0..nvict)
        .map(|k| (rng.chance(500), rng.below(300), rng.below(2 * plans[k].len() as u64 + 1) as usize))
        .collect();
    let header = format!(
        "family=cancel_mutex live=1 actors={} coroutines={} threads={} victims={} rounds={}",
        n,
        nco,
        nth,
        nvict,
        plans.iter().map(|p| p.iter().map(|r| r.inside.to_string()).collect::<String>()).collect::<Vec<_>>().join(",")
    );
    LiveBuilt {
        header,
        filter: vec!["sync/mutex.rs", "sync/blocking.rs"],
        hang_ms: 4000,
        run: Box::new(move || {
            let mut fails = vec![];
            let m = Arc::new(Mutex::new(0usize));
            let occ = Arc::new(AtomicUsize::new(0));
            let max_occ = Arc::new(AtomicUsize::new(0));
            let sections = Arc::new(AtomicUsize::new(0));
            let drops: Vec<Arc<AtomicUsize>> = (0..nco).map(|_| Arc::new(AtomicUsize::new(0))).collect();
            let progress: Vec<Arc<AtomicUsize>> = (0..nco).map(|_| Arc::new(AtomicUsize::new(0))).collect();
            let finished: Vec<Arc<AtomicBool>> = (0..nco).map(|_| Arc::new(AtomicBool::new(false))).collect();
            // the body shared by coroutines and threads
            let body = {
                let (m, occ, max_occ, sections) = (m.clone(), occ.clone(), max_occ.clone(), sections.clone());
                move |plan: Vec<Round>, is_co: bool, prog: Option<Arc<AtomicUsize>>| {
                    struct Leave(Arc<AtomicUsize>);
                    impl Drop for Leave {
                        fn drop(&mut self) {
                            self.0.fetch_sub(1, Ordering::SeqCst);
                        }
                    }
                    for r in plan {
                        call("mutex.lock", 0, 0);
                        let mut g = match m.lock() {
                            Ok(g) => g,
                            Err(_) => panic!("mutex poisoned"),
                        };
                        let o = occ.fetch_add(1, Ordering::SeqCst) + 1;
                        max_occ.fetch_max(o, Ordering::SeqCst);
                        // declared after the guard: dropped before it, also on unwinding
                        let _leave = Leave(occ.clone());
                        ret("mutex.lock", 1);
                        if let Some(p) = &prog {
                            p.fetch_add(1, Ordering::SeqCst);
                        }
                        match (r.inside, is_co) {
                            (1, true) => coroutine::yield_now(),
                            (2, true) => coroutine::sleep(Duration::from_millis(1)),
                            (1, false) => std::thread::yield_now(),
                            (2, false) => std::thread::sleep(Duration::from_micros(50)),
                            _ => {}
                        }
                        *g += 1;
                        sections.fetch_add(1, Ordering::SeqCst);
                        call("mutex.unlock", 0, 0);
                        drop(_leave);
                        drop(g);
                        ret("mutex.unlock", 0);
                        if let Some(p) = &prog {
                            p.fetch_add(1, Ordering::SeqCst);
                        }
                    }
                }
            };
            let mut hs = vec![];
            for k in 0..nco {
                let (b, plan, d, p, f) = (body.clone(), plans[k].clone(), drops[k].clone(), progress[k].clone(), finished[k].clone());
                let h = unsafe {
                    coroutine::Builder::new()
                        .name(format!("c{k}"))
                        .spawn(move || {
                            struct SetDone(Arc<AtomicBool>);
                            impl Drop for SetDone {
                                fn drop(&mut self) {
                                    self.0.store(true, Ordering::SeqCst);
                                }
                            }
                            let _sd = SetDone(f);
                            let _dc = DropCounter(d);
                            b(plan, true, Some(p));
                        })
                        .unwrap()
                };
                std::mem::forget(h.coroutine().clone()); // see pending_fixes/README-C09.md (use-after-free of the cancel data)
                hs.push(h);
            }
            let mut ts = vec![];
            for k in 0..nth {
                let (b, plan) = (body.clone(), plans[nco + k].clone());
                ts.push(spawn_actor_thread(&format!("t{}", nco + k), move || b(plan, false, None)));
            }
            // cancellers (not actors of the mutex model: they touch only the cancel data)
            let t_start = std::time::Instant::now();
            let mut cs = vec![];
            for (k, (by_count, delay_us, at)) in trig.iter().copied().enumerate() {
                let (co, p, f) = (hs[k].coroutine().clone(), progress[k].clone(), finished[k].clone());
                cs.push(
                    std::thread::Builder::new()
                        .name(format!("x{k}"))
                        .spawn(move || {
                            if by_count {
                                while p.load(Ordering::SeqCst) < at && !f.load(Ordering::SeqCst) && t_start.elapsed() < Duration::from_secs(5) {
                                    std::thread::yield_now();
                                }
                            } else {
                                std::thread::sleep(Duration::from_micros(delay_us));
                            }
                            unsafe { co.cancel() };
                        })
                        .unwrap(),
                );
            }
            // a leaked lock blocks the survivors for ever: give up when nothing moves any more
            {
                let mut last = (usize::MAX, 0usize);
                let mut since = std::time::Instant::now();
                loop {
                    let done = hs.iter().filter(|h| h.is_done()).count() + ts.iter().filter(|t| t.is_finished()).count();
                    if done == hs.len() + ts.len() {
                        break;
                    }
                    let now = (sections.load(Ordering::SeqCst), done);
                    if now != last {
                        last = now;
                        since = std::time::Instant::now();
                    } else if since.elapsed() > Duration::from_millis(2500) {
                        fails.push(format!(
                            "mutex never released: {} of {} actors are still blocked 2500 ms after the last critical section (a cancelled coroutine died holding the lock)",
                            hs.len() + ts.len() - done,
                            hs.len() + ts.len()
                        ));
                        // the blocked actors are abandoned (they stay parked on the dead mutex)
                        for c in cs {
                            let _ = c.join();
                        }
                        return fails;
                    }
                    std::thread::sleep(Duration::from_micros(300));
                }
            }
            for (k, h) in hs.into_iter().enumerate() {
                match classify(h.join()) {
                    Ok(true) => {}
                    Ok(false) => {
                        if k >= nvict {
                            fails.push(format!("coroutine c{k} was never cancelled but ended with a Cancel panic"));
                        }
                    }
                    Err(msg) => fails.push(format!("coroutine c{k} panicked: {msg}")),
                }
            }
            for t in ts {
                if t.join().is_err() {
                    fails.push("a thread actor panicked".to_string());
                }
            }
            for c in cs {
                let _ = c.join();
            }
            // the survivors' view: the lock still works and is clean
            if m.is_poisoned() {
                fails.push("the mutex is poisoned after a cancellation".to_string());
            }
            let (m2, sec2) = (m.clone(), sections.clone());
            let probe = spawn_actor_thread(&format!("t{}", n - 1), move || {
                call("mutex.lock", 0, 0);
                let g = m2.lock();
                ret("mutex.lock", 1);
                let v = match &g {
                    Ok(g) => **g,
                    Err(e) => **e.get_ref(),
                };
                call("mutex.unlock", 0, 0);
                drop(g);
                ret("mutex.unlock", 0);
                // cancelled holders end their section early: the payload counts the completed ones
                assert!(v == sec2.load(Ordering::SeqCst), "payload {} != completed sections {}", v, sec2.load(Ordering::SeqCst));
            });
            // (a lock that a dead coroutine still holds would block the probe for ever)
            let t_probe = std::time::Instant::now();
            while !probe.is_finished() && t_probe.elapsed() < Duration::from_millis(2500) {
                std::thread::sleep(Duration::from_micros(300));
            }
            if !probe.is_finished() {
                fails.push("mutex never released: everybody finished but a final lock() is still blocked after 2500 ms (a cancelled coroutine died holding the lock)".to_string());
                return fails;
            }
            if probe.join().is_err() {
                fails.push("final probe: payload under the lock differs from the number of completed critical sections".to_string());
            }
            if max_occ.load(Ordering::SeqCst) > 1 {
                fails.push(format!("mutual exclusion violated: {} holders at once", max_occ.load(Ordering::SeqCst)));
            }
            if occ.load(Ordering::SeqCst) != 0 {
                fails.push("occupancy counter not back to 0".to_string());
            }
            for (k, d) in drops.iter().enumerate() {
                let d = d.load(Ordering::SeqCst);
                if d != 1 {
                    fails.push(format!("drop counter of c{k}: dropped {d} times"));
                }
            }
            fails
        }),
    }
}

// ---------------------------------------------------------------------------------------------------------------
// family `cancel_cvlock` (oracle only): a coroutine is cancelled while it re-locks the mutex inside Condvar::wait
// (cancellation disabled there: the `b_ignore` path of Mutex::lock). Defect F11 (fixed in /repo 5bd8b87): the
// ignoring waiter registered a release action and parked again; the next unlock woke it AND unlocked once more
// => two holders. No replay model is attached to this family (the Condvar blocker's events would need the C11
// model next to the Mutex one); its oracles are occupancy <= 1, completion, no poison.

pub fn build_cvlock(rng: &mut Rng, _tier: u32) -> LiveBuilt {
    let hold_us = 200 + rng.below(1300); // how long the notifier keeps the lock after notify_one
    // the cancel lands while the waiter is parked in the re-lock: early in the hold (mode 0), or AT the unlock (mode 1:
    // cancel() races the unlocker that pops the waiter's blocker - the window of the lost wake-up F16: the blocker was
    // un-parked but `unparked` is not stored yet, the cancel wake-up eats the token, the ignoring waiter parks again)
    let at_unlock = rng.chance(600);
    let cancel_us = if at_unlock { (hold_us + rng.below(240)).saturating_sub(120) } else { rng.below(hold_us.min(600)) };
    let nprobe = 1 + rng.below(2) as usize;
    let header = format!("family=cancel_cvlock hold_us={hold_us} cancel_us={cancel_us} at_unlock={} probes={nprobe}", at_unlock as u8);
    LiveBuilt {
        header,
        // (park.rs and blocking.rs are in the filter so that the seeded perturbation stalls the un-parker between
        //  `blocker.unpark()` and `unparked.store(true)` and the waiter around its park)
        filter: vec!["sync/mutex.rs", "sync/blocking.rs", "src/park.rs"],
        hang_ms: 4000,
        run: Box::new(move || {
            use may::sync::Condvar;
            let mut fails = vec![];
            let pair = Arc::new((Mutex::new(false), Condvar::new()));
            let occ = Arc::new(AtomicUsize::new(0));
            let max_occ = Arc::new(AtomicUsize::new(0));
            let a_waiting = Arc::new(AtomicBool::new(false));
            let notified = Arc::new(AtomicBool::new(false));
            let stop = Arc::new(AtomicBool::new(false));
            let drops = Arc::new(AtomicUsize::new(0));
            let enter = {
                let (occ, max_occ) = (occ.clone(), max_occ.clone());
                move || {
                    let o = occ.fetch_add(1, Ordering::SeqCst) + 1;
                    max_occ.fetch_max(o, Ordering::SeqCst);
                }
            };
            let (p_a, occ_a, aw, d_a, enter_a) = (pair.clone(), occ.clone(), a_waiting.clone(), drops.clone(), enter.clone());
            let ha = unsafe {
                coroutine::Builder::new()
                    .name("c0".into())
                    .spawn(move || {
                        let _dc = DropCounter(d_a);
                        let (m, cv) = &*p_a;
                        let mut g = m.lock().unwrap();
                        aw.store(true, Ordering::SeqCst);
                        while !*g {
                            g = match cv.wait(g) {
                                Ok(g) => g,
                                Err(e) => e.into_inner(),
                            };
                        }
                        // back with the lock (re-acquired inside wait with cancellation disabled)
                        enter_a();
                        let t0 = std::time::Instant::now();
                        while t0.elapsed() < Duration::from_micros(150) {
                            std::hint::spin_loop();
                        }
                        occ_a.fetch_sub(1, Ordering::SeqCst);
                        drop(g);
                        // the next cancellation point ends the coroutine if the cancel was issued
                        for _ in 0..3 {
                            coroutine::yield_now();
                        }
                    })
                    .unwrap()
            };
            std::mem::forget(ha.coroutine().clone());
            let co = ha.coroutine().clone();
            // notifier: takes the lock, sets the flag, notifies, KEEPS the lock for a while, unlocks
            let (p_b, occ_b, aw_b, nt_b, enter_b) = (pair.clone(), occ.clone(), a_waiting.clone(), notified.clone(), enter.clone());
            let tb = spawn_actor_thread("t1", move || {
                let t0 = std::time::Instant::now();
                while !aw_b.load(Ordering::SeqCst) && t0.elapsed() < Duration::from_secs(3) {
                    std::thread::yield_now();
                }
                let (m, cv) = &*p_b;
                let mut g = m.lock().unwrap();
                enter_b();
                *g = true;
                cv.notify_one();
                nt_b.store(true, Ordering::SeqCst);
                let t1 = std::time::Instant::now();
                while t1.elapsed() < Duration::from_micros(hold_us) {
                    std::thread::yield_now();
                }
                occ_b.fetch_sub(1, Ordering::SeqCst);
                drop(g);
            });
            // canceller
            let nt_c = notified.clone();
            let tc = std::thread::Builder::new()
                .name("x0".into())
                .spawn(move || {
                    let t0 = std::time::Instant::now();
                    while !nt_c.load(Ordering::SeqCst) && t0.elapsed() < Duration::from_secs(3) {
                        std::thread::yield_now();
                    }
                    std::thread::sleep(Duration::from_micros(cancel_us));
                    unsafe { co.cancel() };
                })
                .unwrap();
            // probes: lock / try_lock as fast as they can while the hand-over happens
            let mut tp = vec![];
            for k in 0..nprobe {
                let (p_d, occ_d, nt_d, st_d, enter_d) = (pair.clone(), occ.clone(), notified.clone(), stop.clone(), enter.clone());
                tp.push(spawn_actor_thread(&format!("t{}", 2 + k), move || {
                    let t0 = std::time::Instant::now();
                    while !nt_d.load(Ordering::SeqCst) && t0.elapsed() < Duration::from_secs(3) {
                        std::thread::yield_now();
                    }
                    let (m, _) = &*p_d;
                    let mut n = 0u32;
                    while !st_d.load(Ordering::SeqCst) && n < 400 {
                        n += 1;
                        let g = if n % 2 == 0 { m.try_lock().ok() } else { m.lock().ok() };
                        if let Some(g) = g {
                            enter_d();
                            std::hint::spin_loop();
                            occ_d.fetch_sub(1, Ordering::SeqCst);
                            drop(g);
                        }
                    }
                }));
            }
            // the waiter must come back once the notifier has released the mutex (lost wake-up otherwise: F16)
            {
                let mut since: Option<std::time::Instant> = None;
                while !ha.is_done() {
                    if tb.is_finished() && since.is_none() {
                        since = Some(std::time::Instant::now());
                    }
                    if let Some(t) = since {
                        if t.elapsed() > Duration::from_millis(2500) {
                            fails.push("lost wake-up: the waiter is still blocked in the re-lock of Condvar::wait 2500 ms after the notifier released the mutex (cancelled while cancellation was disabled)".to_string());
                            stop.store(true, Ordering::SeqCst);
                            let _ = tc.join();
                            // the waiter and whoever queued behind it are abandoned
                            return fails;
                        }
                    }
                    std::thread::sleep(Duration::from_micros(300));
                }
            }
            match classify(ha.join()) {
                Ok(_) => {}
                Err(m) => fails.push(format!("the waiter panicked: {m}")),
            }
            stop.store(true, Ordering::SeqCst);
            let _ = tb.join();
            let _ = tc.join();
            for t in tp {
                let _ = t.join();
            }
            if max_occ.load(Ordering::SeqCst) > 1 {
                fails.push(format!("mutual exclusion violated: {} holders at once", max_occ.load(Ordering::SeqCst)));
            }
            if pair.0.is_poisoned() {
                fails.push("the mutex is poisoned after the cancellation".to_string());
            }
            if drops.load(Ordering::SeqCst) != 1 {
                fails.push(format!("drop counter: dropped {} times", drops.load(Ordering::SeqCst)));
            }
            fails
        }),
    }
}
