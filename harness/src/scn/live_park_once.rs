//! C02 (live mode), family `park_once`: ONE unpark per park, untimed parks only, nobody rescues.
//!
//! The families `park` / `blocker` (live_park.rs) keep unparking until the parker is through and `main` rescues an
//! untimed park after 80 ms, so a lost wake-up only shows there as a delay. Here a wake-up that is lost stays lost:
//!
//!   R rounds. In round i (1..=R) the parker - a coroutine, on its per-coroutine handle (`on=handle`: every round on
//!   the SAME `Park`) or on a fresh `may::sync::Blocker` per round (`on=blocker`) - runs
//!       at = i;  while go < i { park() }            (untimed; in `before` rounds and 30% of the others the parker
//!                                                    parks once BEFORE it looks at `go` for the first time)
//!   and the round's ONE unparker - the thread `t1` or a fresh coroutine `c:u<i>.<n>` (seeded per round, header
//!   `unparkers=`) - runs
//!       wait until at >= i;  go = i;  unpark()      exactly once
//!   at a seeded point relative to the parker's registration: `before` (the parker dawdles 20-150 us between `at = i`
//!   and `park()`), `race` (0-40 us after `at = i`: while `park_timeout` / `Park::subscribe` run), `after` (0.2-1.2 ms
//!   later: the coroutine is parked). The perturbation of live mode (header `perturb=`; src/park.rs is in the filter)
//!   stalls the unparker between its two operations on the Park and the parker's kernel tail between
//!   `wait_co.store` and its re-check of `state`.
//!
//! API boundary events as in live_park.rs (`co.park` / `co.unpark` / `co.drop`, `blk.new` / `blk.park` / `blk.unpark`
//! / `blk.drop`; blockers are numbered 0..R-1). In a failing history `main note - lost_wakeup_recorded round<i>` marks
//! the point where the failure was recorded; what follows is the second unpark (`second_unpark_revived` / `_no_effect`).
//!
//! Oracles (independent of the model):
//!  * every round completes. `main` watches: if the round's unpark has RETURNED, the parker is not through, and no
//!    hooked operation at all has been performed by anybody for `LOST_MS` (wall clock), the failure
//!    `lost wake-up: ...` is recorded. Only AFTER that `main` issues a second unpark, so that the process can go on with
//!    its remaining seeds, and appends whether that revived the coroutine (revived = the coroutine was alive and
//!    registered, it was the wake-up that was lost). The rest of the scenario's rounds is skipped.
//!    No real-time upper bound is involved on a correct tree: a slow machine delays events, it does not stop them, and
//!    the bound only starts to count when every actor of the scenario has gone quiet.
//!  * the generic watchdog (`hang_ms`, > LOST_MS) stays armed behind it (e.g. an unpark that never returns).
//!  * `on=blocker`: `park()` on a fresh blocker must not return before the blocker's only unpark was issued
//!    (`spurious: ...`); on the shared handle a late `take` of the previous round's unparker may end a park early (the
//!    spurious wake a re-used Park is allowed, see Props/C02.lean), the parker's loop absorbs it.
use super::{spawn_actor_thread, LiveBuilt};
use crate::rt::{call, ret, Rng, LIVE_EVENTS};
use may::coroutine;
use may::sync::Blocker;
use std::sync::atomic::{AtomicBool, AtomicUsize, Ordering::SeqCst};
use std::sync::{Arc, Mutex};
use std::time::{Duration, Instant};

/// every actor quiet for this long (no hooked operation by anybody) after the round's unpark returned = lost wake-up
const LOST_MS: u64 = 3000;
/// generic watchdog of `vh live` behind it
const HANG_MS: u64 = 4000;
/// how long the second unpark is given to bring the coroutine back
const REVIVE_MS: u64 = 2000;

/// every lost wake-up costs LOST_MS of waiting: after this many in one process the tree is known to be broken and the
/// remaining scenarios of the process are not run (header `skipped=1`, empty trace), so that the check stays fast
const MAX_LOST: usize = 4;

static SCN: AtomicUsize = AtomicUsize::new(0);
static LOST: AtomicUsize = AtomicUsize::new(0);

#[derive(Clone, Copy, PartialEq)]
enum Mode {
    Before,
    Race,
    After,
}

#[derive(Clone, Copy)]
struct Round {
    by_co: bool,
    mode: Mode,
    /// the parker parks before it looks at `go` for the first time
    force: bool,
    /// the parker's pause between `at = i` and `park()` (us, busy)
    pre_us: u64,
    /// the unparker's pause between seeing `at >= i` and `go = i; unpark()` (us; busy below 100, else a sleep)
    delay_us: u64,
}

struct Shared {
    at: AtomicUsize,
    go: AtomicUsize,
    done: AtomicUsize,
    /// last round whose unpark has returned
    fired: AtomicUsize,
    abort: AtomicBool,
    parks: AtomicUsize,
    cur: Mutex<Option<Arc<Blocker>>>,
    fails: Mutex<Vec<String>>,
}

fn busy_us(us: u64) {
    if us == 0 {
        return;
    }
    let t0 = Instant::now();
    let d = Duration::from_micros(us);
    while t0.elapsed() < d {
        std::hint::spin_loop();
    }
}

fn pause_us(us: u64) {
    if us < 100 {
        busy_us(us)
    } else {
        std::thread::sleep(Duration::from_micros(us))
    }
}

/// poll `f` - tightly at first (the races of this family are a few microseconds wide), then politely
fn wait_until(f: impl Fn() -> bool, abort: &AtomicBool) -> bool {
    let mut n = 0u32;
    let mut t0 = None;
    loop {
        if f() {
            return true;
        }
        if abort.load(SeqCst) {
            return false;
        }
        n += 1;
        if n < 3000 {
            std::hint::spin_loop();
        } else {
            let t = *t0.get_or_insert_with(Instant::now);
            if t.elapsed() < Duration::from_micros(300) {
                std::thread::yield_now();
            } else {
                std::thread::sleep(Duration::from_micros(50));
            }
        }
    }
}

/// `main` waits for `f`; `Err(quiet_ms)` when `stuck()` holds and nobody has performed a hooked operation for LOST_MS
fn watch(f: impl Fn() -> bool, stuck: impl Fn() -> bool) -> Result<(), u64> {
    let mut n = 0u32;
    let mut t0 = None;
    let mut last = LIVE_EVENTS.load(SeqCst);
    let mut quiet = Instant::now();
    loop {
        if f() {
            return Ok(());
        }
        n += 1;
        if n < 3000 {
            std::hint::spin_loop();
            continue;
        }
        let t = *t0.get_or_insert_with(|| {
            quiet = Instant::now();
            Instant::now()
        });
        if t.elapsed() < Duration::from_micros(300) {
            std::thread::yield_now();
        } else {
            std::thread::sleep(Duration::from_micros(100));
        }
        let e = LIVE_EVENTS.load(SeqCst);
        if e != last || !stuck() {
            last = e;
            quiet = Instant::now();
        } else if quiet.elapsed() >= Duration::from_millis(LOST_MS) {
            return Err(quiet.elapsed().as_millis() as u64);
        }
    }
}

pub fn build(rng: &mut Rng, tier: u32) -> LiveBuilt {
    let fixed = super::live_park::f6_fixed();
    // unique in the process: kernel tails of the previous scenario's parker may still be at work (foreign for the replay)
    let pn = SCN.fetch_add(1, SeqCst) + 1;
    let pname = format!("c1.{pn}");
    let on_blocker = rng.chance(400);
    let rounds = 3 + rng.below(if tier > 0 { 14 } else { 8 }) as usize;
    let plan: Vec<Round> = (0..rounds)
        .map(|_| {
            let by_co = rng.chance(350);
            let mode = match rng.below(10) {
                0 | 1 => Mode::Before,
                2..=7 => Mode::Race,
                _ => Mode::After,
            };
            let (pre_us, delay_us) = match mode {
                Mode::Before => (20 + rng.below(130), 0),
                Mode::Race => (0, [0, 0, 0, 1, 2, 3, 5, 8, 12, 20, 40][rng.below(11) as usize]),
                Mode::After => (0, 200 + rng.below(1000)),
            };
            let force = mode == Mode::Before || rng.chance(300);
            Round { by_co, mode, force, pre_us, delay_us }
        })
        .collect();
    let skipped = LOST.load(SeqCst) >= MAX_LOST;
    let header = format!(
        "family=park_once on={} rounds={rounds} pname=c:{pname} f6fix={} unparkers={} modes={}{}",
        if on_blocker { "blocker" } else { "handle" },
        fixed as u8,
        plan.iter().map(|r| if r.by_co { 'c' } else { 't' }).collect::<String>(),
        plan.iter()
            .map(|r| match r.mode {
                Mode::Before => 'b',
                Mode::Race => 'r',
                Mode::After => 'a',
            })
            .collect::<String>(),
        if skipped { " skipped=1" } else { "" },
    );
    LiveBuilt {
        header,
        filter: vec!["src/park.rs", "sync/atomic_dur.rs", "src/cancel.rs"],
        hang_ms: HANG_MS,
        run: Box::new(move || {
            if skipped {
                return vec![];
            }
            let sh = Arc::new(Shared {
                at: AtomicUsize::new(0),
                go: AtomicUsize::new(0),
                done: AtomicUsize::new(0),
                fired: AtomicUsize::new(0),
                abort: AtomicBool::new(false),
                parks: AtomicUsize::new(0),
                cur: Mutex::new(None),
                fails: Mutex::new(vec![]),
            });
            // ---------------------------------------------------------------- the parker
            let (s2, p2) = (sh.clone(), plan.clone());
            let parker = move || {
                for (k, r) in p2.iter().enumerate() {
                    let i = k + 1;
                    if s2.abort.load(SeqCst) {
                        break;
                    }
                    let mut blk = None;
                    if on_blocker {
                        call("blk.new", k as u64, 0);
                        let b = Blocker::current();
                        ret("blk.new", k as u64);
                        *s2.cur.lock().unwrap_or_else(|e| e.into_inner()) = Some(b.clone());
                        blk = Some(b);
                    }
                    s2.at.store(i, SeqCst);
                    busy_us(r.pre_us);
                    // `force`: park at least once (a token that arrived before the park must end it at once); else the
                    // condition is looked at first, as a user of park() would
                    let mut first = r.force;
                    while std::mem::take(&mut first) || s2.go.load(SeqCst) < i {
                        match &blk {
                            None => {
                                call("co.park", 0, 0);
                                coroutine::park();
                                ret("co.park", 0);
                            }
                            Some(b) => {
                                call("blk.park", k as u64, 0);
                                let res = b.park(None);
                                ret("blk.park", match res {
                                    Ok(()) => 0,
                                    Err(may::coroutine::ParkError::Timeout) => 1,
                                    Err(may::coroutine::ParkError::Canceled) => 2,
                                });
                                if res.is_err() {
                                    s2.fails.lock().unwrap_or_else(|e| e.into_inner()).push(format!("round {i}: the untimed park returned {res:?}"));
                                } else if s2.go.load(SeqCst) < i {
                                    s2.fails.lock().unwrap_or_else(|e| e.into_inner()).push(format!(
                                        "spurious: round {i}: park() on a fresh blocker returned Ok before the blocker's only unpark was issued"
                                    ));
                                }
                            }
                        }
                        s2.parks.fetch_add(1, SeqCst);
                    }
                    s2.done.store(i, SeqCst);
                    if let Some(b) = blk {
                        call("blk.drop", k as u64, 0);
                        let c = s2.cur.lock().unwrap_or_else(|e| e.into_inner()).take();
                        drop(c);
                        drop(b);
                        ret("blk.drop", 0);
                    }
                }
            };
            let h = unsafe { coroutine::Builder::new().name(pname.clone()).spawn(parker).unwrap() };
            let co = h.coroutine().clone();
            // ---------------------------------------------------------------- the one unpark of round i
            let (s3, c3) = (sh.clone(), co.clone());
            let unpark_once: Arc<dyn Fn(usize) + Send + Sync> = Arc::new(move |i: usize| {
                if on_blocker {
                    let b = s3.cur.lock().unwrap_or_else(|e| e.into_inner()).clone();
                    if let Some(b) = b {
                        call("blk.unpark", (i - 1) as u64, 0);
                        b.unpark();
                        drop(b);
                        ret("blk.unpark", 0);
                    }
                } else {
                    call("co.unpark", 0, 0);
                    c3.unpark();
                    ret("co.unpark", 0);
                }
            });
            let (s4, u4) = (sh.clone(), unpark_once.clone());
            let fire: Arc<dyn Fn(usize) + Send + Sync> = Arc::new(move |i: usize| {
                s4.go.store(i, SeqCst);
                u4(i);
                s4.fired.store(i, SeqCst);
            });
            let mut t1 = None;
            if plan.iter().any(|r| !r.by_co) {
                let (sh, plan, fire) = (sh.clone(), plan.clone(), fire.clone());
                t1 = Some(spawn_actor_thread("t1", move || {
                    for (k, r) in plan.iter().enumerate().filter(|(_, r)| !r.by_co) {
                        let i = k + 1;
                        if !wait_until(|| sh.at.load(SeqCst) >= i, &sh.abort) {
                            return;
                        }
                        pause_us(r.delay_us);
                        fire(i);
                    }
                }));
            }
            // ---------------------------------------------------------------- main: coroutine unparkers, the watch
            let mut cos = vec![];
            let mut out: Vec<String> = vec![];
            let mut abandoned = false;
            for (k, r) in plan.iter().enumerate() {
                let i = k + 1;
                // the round's unpark has returned and the parker is not through: nobody else will ever wake it
                let stuck = || sh.fired.load(SeqCst) >= i;
                let mut res = Ok(());
                if r.by_co {
                    res = watch(|| sh.at.load(SeqCst) >= i, || false);
                    pause_us(r.delay_us);
                    let fire = fire.clone();
                    cos.push(unsafe {
                        coroutine::Builder::new().name(format!("u{i}.{pn}")).spawn(move || fire(i)).unwrap()
                    });
                }
                if res.is_ok() {
                    res = watch(|| sh.done.load(SeqCst) >= i, stuck);
                }
                if let Err(quiet_ms) = res {
                    let mut msg = format!(
                        "lost wake-up: round {i} of {rounds} ({}, unparker {}, {}): go={i} was published and the round's only unpark() has returned, but the parker has not come back from its untimed park() (park #{} of the scenario); no hooked operation by anybody for {quiet_ms} ms",
                        if on_blocker { "fresh Blocker" } else { "per-coroutine handle" },
                        if r.by_co { format!("c:u{i}.{pn}") } else { "t1".to_string() },
                        match r.mode {
                            Mode::Before => "aimed before the start of the park",
                            Mode::Race => "aimed at the registration of the park",
                            Mode::After => "aimed after the registration of the park",
                        },
                        sh.parks.load(SeqCst) + 1,
                    );
                    // the failure is on record; only now a second unpark (by `main`) lets the process go on
                    sh.abort.store(true, SeqCst);
                    LOST.fetch_add(1, SeqCst);
                    may::verif::note("lost_wakeup_recorded", &format!("round{i}"));
                    let t0 = Instant::now();
                    unpark_once(i);
                    let mut back = None;
                    while t0.elapsed() < Duration::from_millis(REVIVE_MS) {
                        if sh.done.load(SeqCst) >= i {
                            back = Some(t0.elapsed());
                            break;
                        }
                        std::thread::sleep(Duration::from_micros(50));
                    }
                    may::verif::note(if back.is_some() { "second_unpark_revived" } else { "second_unpark_no_effect" }, &format!("round{i}"));
                    match back {
                        Some(d) => msg.push_str(&format!(
                            "; a second unpark() revived it after {} us (the coroutine was alive and registered: the wake-up was lost)",
                            d.as_micros()
                        )),
                        None => {
                            msg.push_str(&format!(
                                "; a second unpark() did NOT bring it back within {REVIVE_MS} ms (the coroutine is gone or not registered)"
                            ));
                            abandoned = true;
                        }
                    }
                    out.push(msg);
                    break;
                }
            }
            if abandoned {
                // the parker is left behind (its handle is leaked so that nothing of it is torn down under its feet)
                std::mem::forget(h);
                std::mem::forget(co);
                out.extend(sh.fails.lock().unwrap_or_else(|e| e.into_inner()).drain(..));
                return out;
            }
            if h.join().is_err() {
                out.push("parker coroutine panicked".to_string());
            }
            sh.abort.store(true, SeqCst);
            if let Some(t) = t1 {
                let _ = t.join();
            }
            for c in cos {
                let _ = c.join();
            }
            drop(fire);
            drop(unpark_once);
            // kernel tails of the last parks may still be at work (perturbation: up to 2 ms per operation)
            super::quiesce(3);
            if on_blocker {
                drop(co);
            } else {
                call("co.drop", 0, 0);
                drop(co);
                ret("co.drop", 0);
            }
            let d = sh.done.load(SeqCst);
            if out.is_empty() && d != rounds {
                out.push(format!("parker finished {d} of {rounds} rounds"));
            }
            out.extend(sh.fails.lock().unwrap_or_else(|e| e.into_inner()).drain(..));
            out
        }),
    }
}
