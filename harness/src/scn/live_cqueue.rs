//! C16: `cqueue` / `select!` – every event is consumed once, `select!` returns a fully run arm (live mode)
//!
//! One scenario = one `cqueue::scope` owned by the *poller* (a thread = actor `main`, or the coroutine `p`) with
//! 1–4 select coroutines ("arms": actors `c#k`, bound to their arm index by their first event `call arm.top i r`).
//! An arm is `loop { top half; send; bottom half }` (`rounds` times) built with `go!(cqueue, token, |es| ..)`,
//! `cqueue_add!` / `cqueue_add_oneshot!` or `select!`; top halves yield / sleep / wait on a channel fed by the thread
//! `t1`; arms end normally, by a panic in the top or bottom half, or never (blocked until they are cancelled by
//! `Selector::remove` – thread `t2` – or by `Cqueue::drop`). The poller runs a seeded list of `poll(None)` /
//! `poll(Some(d))` calls and leaves the scope (= drop: cancel the arms, drain until `Finished`).
//!
//! Oracles (independent of the model): per-arm top/bottom counters (a bottom half only after its own top half, at
//! most once per top half, already finished when `poll` returns its event; events of an arm arrive in order, once),
//! a bottom half runs on the poller's thread (thread poller), `Finished` only when every arm has ended, `Timeout` not
//! before the duration, no arm step after the scope was left, an arm's panic re-raised in the poller – with the
//! arm's payload and WITHOUT aborting the process. Scenarios with a panicking arm are abort-prone (defect F9): they
//! are first run in a child process (`vh` re-executes itself); SIGABRT there is the oracle failure and the scenario is
//! then not repeated in-process.
//!
//! API events in the trace: poller `cq.add i` · `cq.poll ms|-1` → token | -1 Finished | -2 Timeout | -3 unwound ·
//! `cq.drop` (call = the scope closure returns, ret = `cqueue::scope` returned normally, `cq.unwind` = it unwound) ·
//! `cq.remove i` (thread `t2`); arms `arm.top i r` (call … ret = the top half of round r) · `arm.bottom i r` ·
//! `arm.ret i` (the closure returns) · `arm.panic i h` (about to panic in half h).
use super::{spawn_actor_thread, LiveBuilt};
use crate::canon::Canon;
use crate::rt::{self, call, ret, Rng};
use may::cqueue::{self, PollError};
use may::sync::mpsc;
use may::{coroutine, cqueue_add, cqueue_add_oneshot, go, select};
use std::sync::atomic::{AtomicBool, AtomicU64, AtomicUsize, Ordering::SeqCst};
use std::sync::{Arc, Mutex as StdMutex};
use std::time::{Duration, Instant};

#[derive(Clone, Copy, PartialEq, Debug)]
enum Top {
    Now,
    Yield(u32),
    Sleep(u64), // µs
    Recv,
}
/// how the channel of a `Top::Recv` arm is fed. A live feeder (thread `t1`) races with a cancel of the waiting arm, and
/// the runtime has a hang there that is outside this property (`Park::drop` of a cancelled, unwinding coroutine that was
/// resumed inside its own kernel tail spins on `wait_kernel` because a cancelled `yield_now` does not switch): live
/// feeding is only used when no arm is ever cancelled (the poller polls until `Finished`).
#[derive(Clone, Copy, PartialEq, Debug)]
enum Feed {
    Pre,
    Live,
    Never,
}
#[derive(Clone, Copy, PartialEq, Debug)]
enum End {
    Normal,
    PanicTop,
    PanicBottom,
    Block,
}
#[derive(Clone, Debug)]
struct ArmSpec {
    rounds: u32,
    top: Top,
    end: End,
    end_round: u32,
    remove_us: Option<u64>,
    feed: Feed,
}
#[derive(Clone, Copy, PartialEq, Debug)]
enum Style {
    Go,     // go!(cqueue, token, |es| { loop { top; es.send(round); bottom } })
    Macros, // cqueue_add! / cqueue_add_oneshot!
    Select, // select!(..)
}
#[derive(Clone, Debug)]
struct Spec {
    style: Style,
    poller_co: bool,
    arms: Vec<ArmSpec>,
    polls: Vec<Option<u64>>, // time-out in ms
    max_ok: usize,
    catch_inside: bool,
    feed_gap_us: u64,
    /// the poller polls with `None` until `Finished`: nothing is ever cancelled
    drain_all: bool,
}

fn gen(rng: &mut Rng, tier: u32) -> Spec {
    let style = match rng.below(10) {
        0..=4 => Style::Go,
        5..=7 => Style::Macros,
        _ => Style::Select,
    };
    let poller_co0 = rng.chance(400);
    let n = if style == Style::Select { 2 + rng.below(2) as usize } else { 1 + rng.below(if tier > 0 { 4 } else { 3 }) as usize };
    let with_panic = rng.chance(300);
    // a coroutine that parks while it unwinds (here: the poller inside `Cqueue::drop`) and is resumed by another worker
    // leaves std's per-thread panic count wrong on both workers for the rest of the process (`thread::panicking()`
    // lies: reported by the scope work package); a re-raised panic is therefore only combined with a coroutine poller on request
    let poller_co = poller_co0 && (!with_panic || std::env::var("VH_CQ_CO_UNWIND").is_ok());
    let mut arms = vec![];
    for i in 0..n {
        let top = match rng.below(6) {
            0 => Top::Now,
            1 | 2 => Top::Yield(rng.below(3) as u32),
            3 => Top::Sleep(200 + rng.below(1500)),
            _ => Top::Recv,
        };
        let oneshot = style == Style::Select || rng.chance(400);
        let rounds = if oneshot { 1 } else { 1 + rng.below(3) as u32 };
        let mut end = match rng.below(10) {
            0..=6 => End::Normal,
            _ => End::Block,
        };
        if with_panic && (i == 0 || rng.chance(300)) {
            end = if rng.chance(500) { End::PanicTop } else { End::PanicBottom };
        }
        if style == Style::Select && end == End::Block {
            end = End::Normal;
        }
        // a poller that unwinds (re-raised arm panic) runs the pending bottom halves on its unwinding thread, where
        // `check_cancel` is disabled by `thread::panicking()`: an arm whose next top half waits for a message that never
        // comes then spins for ever (reported defect, see pending_fixes/README-C16.md). Such arms are only combined with
        // panicking arms on request, so that the remaining oracles of this family stay usable.
        let (top, end) = if with_panic && std::env::var("VH_CQ_LIVELOCK").is_err() {
            (if top == Top::Recv { Top::Sleep(200 + rng.below(800)) } else { top }, if end == End::Block { End::Normal } else { end })
        } else {
            (top, end)
        };
        let end_round = rng.below(rounds as u64) as u32;
        let remove_us = if style != Style::Select && rng.chance(200) { Some(rng.below(1500)) } else { None };
        arms.push(ArmSpec { rounds, top, end, end_round, remove_us, feed: Feed::Pre });
    }
    let drain_all = style != Style::Select && rng.chance(350);
    if drain_all {
        for a in arms.iter_mut() {
            a.remove_us = None;
            if a.end == End::Block {
                a.end = End::Normal;
            }
            a.feed = Feed::Live;
        }
    } else {
        for (i, a) in arms.iter_mut().enumerate() {
            // `select!`: an arm that never completes is the normal case; keep arm 0 completing
            a.feed = if style == Style::Select && i > 0 && rng.chance(400) { Feed::Never } else { Feed::Pre };
        }
    }
    // poll(None) only while every arm is guaranteed to send or to end by itself
    let safe_none = arms.iter().all(|a| a.end != End::Block && a.remove_us.is_none());
    let np = if drain_all { 0 } else { rng.below(7) as usize };
    let polls = (0..np)
        // coroutine pollers: 10-13 ms, not 1-4 ms: `Park::subscribe` arms the timer before it publishes the coroutine (defect
        // F6 of C08); on a loaded machine a short timer fires inside that window and the poller's time-out is lost for ever
        .map(|_| if safe_none && rng.chance(600) { None } else { Some(if poller_co { 10 } else { 1 } + rng.below(4)) })
        .collect();
    let total: usize = arms.iter().map(|a| a.rounds as usize).sum();
    let max_ok = if drain_all || rng.chance(500) { usize::MAX } else { rng.below(total as u64 + 1) as usize };
    Spec { style, poller_co, arms, polls, max_ok, catch_inside: rng.chance(300), feed_gap_us: rng.below(300), drain_all }
}

struct ArmCtx {
    i: usize,
    spec: ArmSpec,
    round: AtomicUsize,
    top_done: AtomicUsize,
    bot_start: AtomicUsize,
    bot_done: AtomicUsize,
    ended: AtomicBool,
    panicked: AtomicBool,
    /// the closure ends right after the bottom half of its (only) round: `select!`, `cqueue_add_oneshot!`
    last_round_ends: bool,
    rx: StdMutex<Option<mpsc::Receiver<u32>>>,
    never: StdMutex<Option<mpsc::Receiver<u32>>>,
    sh: Arc<Shared>,
}
struct Shared {
    scope_live: AtomicBool,
    poller_thread: AtomicU64, // thread id of a thread poller, 0 = do not check
    fails: StdMutex<Vec<String>>,
}
impl Shared {
    fn fail(&self, s: String) {
        self.fails.lock().unwrap_or_else(|e| e.into_inner()).push(s);
    }
}
/// handles of the coroutines of the previous scenario: `Park::subscribe` still uses the coroutine's `Cancel` (it lives
/// in the handle) after it has published the coroutine, so a handle must outlive the kernel tails of its coroutine –
/// the perturbation at the hooked `cancel.rs` operations widens that window of the runtime a lot
static GRAVEYARD: StdMutex<Vec<coroutine::Coroutine>> = StdMutex::new(Vec::new());
fn keep_handle() {
    GRAVEYARD.lock().unwrap_or_else(|e| e.into_inner()).push(coroutine::current());
}
fn tid() -> u64 {
    // ThreadId has no stable integer accessor: use the address of a thread local
    thread_local! { static X: u8 = const { 0 }; }
    X.with(|x| x as *const u8 as u64)
}
impl ArmCtx {
    fn alive(&self, what: &str) {
        if !self.sh.scope_live.load(SeqCst) {
            self.sh.fail(format!("arm-after-scope: arm {} {} after the cqueue scope was left", self.i, what));
        }
    }
    /// the arm's closure is over (returns or unwinds): recorded BEFORE its `EventSender` is dropped
    fn end(&self, how: &str) {
        self.alive(how);
        self.ended.store(true, SeqCst);
    }
    /// the top half of the current round; `None` = the closure returns now. The returned guard lives until the end of
    /// the round (it is declared after the `EventSender`, so it is dropped before it).
    fn top(&self) -> Option<RoundGuard<'_>> {
        match std::panic::catch_unwind(std::panic::AssertUnwindSafe(|| self.top_inner())) {
            Ok(true) => Some(RoundGuard { c: self, last: self.last_round_ends }),
            Ok(false) => {
                self.end("returns");
                None
            }
            Err(e) => {
                self.end("unwinds");
                std::panic::resume_unwind(e)
            }
        }
    }
    fn top_inner(&self) -> bool {
        let (i, r) = (self.i, self.round.load(SeqCst));
        self.alive("starts a top half");
        call("arm.top", i as u64, r as u64);
        if r == 0 {
            keep_handle();
            // the first action of every arm is a cancel check: it ties the arm's `Cancel` object to the arm
            coroutine::yield_now();
        }
        if r as u32 >= self.spec.rounds {
            if self.spec.end == End::Block {
                let rx = self.never.lock().unwrap_or_else(|e| e.into_inner()).take();
                if let Some(rx) = rx {
                    let _ = rx.recv(); // never fed: ends only by cancellation
                }
                self.sh.fail(format!("arm {i}: a never-fed recv returned"));
            }
            call("arm.ret", i as u64, 0);
            return false;
        }
        if self.spec.end == End::PanicTop && r as u32 == self.spec.end_round {
            self.panicked.store(true, SeqCst);
            call("arm.panic", i as u64, 0);
            panic!("arm{i}-boom");
        }
        match self.spec.top {
            Top::Now => {}
            Top::Yield(k) => {
                for _ in 0..k {
                    coroutine::yield_now();
                }
            }
            Top::Sleep(us) => coroutine::sleep(Duration::from_micros(us)),
            Top::Recv => {
                let g = self.rx.lock().unwrap_or_else(|e| e.into_inner()).take();
                if let Some(rx) = g {
                    let v = rx.recv();
                    if v.is_err() {
                        self.sh.fail(format!("arm {i}: feeder channel closed early"));
                    }
                    *self.rx.lock().unwrap_or_else(|e| e.into_inner()) = Some(rx);
                }
            }
        }
        self.alive("finishes a top half");
        self.top_done.fetch_add(1, SeqCst);
        ret("arm.top", i as u64);
        true
    }
    fn bottom(&self) {
        let (i, r) = (self.i, self.round.load(SeqCst));
        self.alive("starts a bottom half");
        call("arm.bottom", i as u64, r as u64);
        let pt = self.sh.poller_thread.load(SeqCst);
        if pt != 0 && pt != tid() {
            self.sh.fail(format!("bottom-not-in-poller: bottom half {r} of arm {i} does not run inside the poller's poll()"));
        }
        let b = self.bot_start.fetch_add(1, SeqCst) + 1;
        if b > self.top_done.load(SeqCst) {
            self.sh.fail(format!("bottom-before-top: arm {i} started bottom half #{b} after {} top halves", self.top_done.load(SeqCst)));
        }
        if self.spec.end == End::PanicBottom && r as u32 == self.spec.end_round {
            self.panicked.store(true, SeqCst);
            call("arm.panic", i as u64, 1);
            panic!("arm{i}-boom");
        }
        self.bot_done.fetch_add(1, SeqCst);
        self.round.fetch_add(1, SeqCst);
        ret("arm.bottom", i as u64);
        if self.last_round_ends {
            call("arm.ret", i as u64, 0);
        }
    }
}
/// alive from the end of a top half to the end of its round
struct RoundGuard<'a> {
    c: &'a ArmCtx,
    last: bool,
}
impl Drop for RoundGuard<'_> {
    fn drop(&mut self) {
        if std::thread::panicking() {
            self.c.end("unwinds");
        } else if self.last {
            self.c.end("returns");
        }
    }
}

/// `cqueue_add!` / `cqueue_add_oneshot!` build closures that are not `move`: everything they mention must outlive the scope
fn add_with_macros<'a>(cq: &'a cqueue::Cqueue, c: &'a ArmCtx) -> cqueue::Selector {
    if c.last_round_ends {
        cqueue_add_oneshot!(cq, c.i, _g = { match c.top() { Some(g) => g, None => return } } => c.bottom())
    } else {
        cqueue_add!(cq, c.i, _g = { match c.top() { Some(g) => g, None => return } } => c.bottom())
    }
}

fn payload_str(e: &(dyn std::any::Any + Send)) -> String {
    e.downcast_ref::<String>().cloned().or(e.downcast_ref::<&str>().map(|s| s.to_string())).unwrap_or_else(|| "<non-string payload>".into())
}

/// the poller's part: runs the scope, returns what the scope call did
fn poller(spec: &Spec, ctxs: &[Arc<ArmCtx>], sh: &Arc<Shared>, rm_tx: std::sync::mpsc::Sender<(usize, u64, cqueue::Selector)>) {
    if !spec.poller_co {
        sh.poller_thread.store(tid(), SeqCst);
    }
    let n = ctxs.len();
    let consumed: Vec<AtomicUsize> = (0..n).map(|_| AtomicUsize::new(0)).collect();
    let res = std::panic::catch_unwind(std::panic::AssertUnwindSafe(|| match spec.style {
        Style::Select => {
            let (c0, c1): (&ArmCtx, &ArmCtx) = (&ctxs[0], &ctxs[1]);
            call("cq.select", n as u64, 0);
            let tok = if n == 2 {
                select!(
                    _g = c0.top().unwrap() => c0.bottom(),
                    _g = c1.top().unwrap() => c1.bottom()
                )
            } else {
                let c2: &ArmCtx = &ctxs[2];
                select!(
                    _g = c0.top().unwrap() => c0.bottom(),
                    _g = c1.top().unwrap() => c1.bottom(),
                    _g = c2.top().unwrap() => c2.bottom()
                )
            };
            ret("cq.select", tok as u64);
            if tok >= n {
                sh.fail(format!("select-token: select! returned token {tok} of {n} arms"));
            } else {
                let c = &ctxs[tok];
                if c.top_done.load(SeqCst) != 1 || c.bot_done.load(SeqCst) != 1 {
                    sh.fail(format!(
                        "select-token: select! returned token {tok} whose halves ran top={} bottom={}",
                        c.top_done.load(SeqCst),
                        c.bot_done.load(SeqCst)
                    ));
                }
            }
            for c in ctxs {
                if !c.ended.load(SeqCst) {
                    sh.fail(format!("arm-running-after-select: arm {} has not ended when select! returned", c.i));
                }
            }
        }
        _ => cqueue::scope(|cq| {
            for c in ctxs {
                let i = c.i;
                let c2 = c.clone();
                call("cq.add", i as u64, 0);
                let s = if spec.style == Style::Go {
                    go!(cq, i, move |es| {
                        let es = es;
                        loop {
                            let Some(_g) = c2.top() else { return };
                            es.send(c2.round.load(SeqCst));
                            c2.bottom();
                        }
                    })
                } else {
                    add_with_macros(cq, c)
                };
                ret("cq.add", i as u64);
                if let Some(us) = c.spec.remove_us {
                    let _ = rm_tx.send((i, us, s));
                } else {
                    std::mem::forget(s); // a Selector is only a handle (no Drop); keeping the handle alive keeps coroutine names unique
                }
            }
            let mut oks = 0usize;
            let forever = [None];
            let polls: Box<dyn Iterator<Item = &Option<u64>>> = if spec.drain_all { Box::new(forever.iter().cycle()) } else { Box::new(spec.polls.iter()) };
            for tmo in polls {
                if oks >= spec.max_ok {
                    break;
                }
                call("cq.poll", tmo.map(|m| m as u64).unwrap_or(u64::MAX), 0);
                let t0 = Instant::now();
                let d = tmo.map(Duration::from_millis);
                let r = if spec.catch_inside {
                    match std::panic::catch_unwind(std::panic::AssertUnwindSafe(|| cq.poll(d))) {
                        Ok(r) => r,
                        Err(e) => {
                            ret("cq.poll", (-3i64) as u64);
                            let p = payload_str(&*e);
                            if !p.starts_with("arm") {
                                sh.fail(format!("panic-payload: poll() unwound with `{p}` instead of the arm's payload"));
                            }
                            break;
                        }
                    }
                } else {
                    cq.poll(d)
                };
                match r {
                    Ok(ev) => {
                        ret("cq.poll", ev.token as u64);
                        oks += 1;
                        let tok = ev.token;
                        if tok >= n {
                            sh.fail(format!("event-token: poll returned token {tok}"));
                            continue;
                        }
                        let c = &ctxs[tok];
                        let k = consumed[tok].fetch_add(1, SeqCst) + 1;
                        let (td, bs, bd) = (c.top_done.load(SeqCst), c.bot_start.load(SeqCst), c.bot_done.load(SeqCst));
                        let bottom_panics = c.spec.end == End::PanicBottom && (k - 1) as u32 == c.spec.end_round;
                        if bs != k || td < k || (!bottom_panics && bd != k) {
                            sh.fail(format!("event-once: poll returned event #{k} of arm {tok} but its halves ran top={td} bottom_started={bs} bottom_done={bd}"));
                        }
                        let want = if spec.style == Style::Go { k - 1 } else { tok };
                        if ev.extra != want {
                            sh.fail(format!("event-order: event #{k} of arm {tok} carries extra={} (expected {want})", ev.extra));
                        }
                    }
                    Err(PollError::Finished) => {
                        ret("cq.poll", (-1i64) as u64);
                        for c in ctxs {
                            if !c.ended.load(SeqCst) {
                                sh.fail(format!("finished-early: poll reported Finished while arm {} has not ended", c.i));
                            }
                        }
                        break;
                    }
                    Err(PollError::Timeout) => {
                        ret("cq.poll", (-2i64) as u64);
                        match d {
                            None => sh.fail("timeout-without-duration: poll(None) reported Timeout".into()),
                            Some(d) if t0.elapsed() < d => sh.fail(format!("timeout-early: poll({d:?}) reported Timeout after {:?}", t0.elapsed())),
                            _ => {}
                        }
                    }
                }
            }
            call("cq.drop", 0, 0);
        }),
    }));
    sh.scope_live.store(false, SeqCst);
    let any_panicked = ctxs.iter().any(|c| c.panicked.load(SeqCst));
    match res {
        Ok(()) => {
            ret("cq.drop", 0);
            if any_panicked && !spec.catch_inside {
                sh.fail("panic-lost: an arm panicked but the scope returned normally (payload not re-raised in the poller)".into());
            }
        }
        Err(e) => {
            ret("cq.unwind", 0);
            let p = payload_str(&*e);
            let ok = ctxs.iter().any(|c| c.panicked.load(SeqCst) && p == format!("arm{}-boom", c.i));
            if !ok {
                sh.fail(format!("panic-payload: the scope unwound with `{p}`, which is not the payload of a panicked arm"));
            }
        }
    }
    for c in ctxs {
        if !c.ended.load(SeqCst) {
            sh.fail(format!("arm-running-after-drop: arm {} has not ended when the cqueue scope was left", c.i));
            if std::env::var("VH_CQ_DEBUG_ESCAPE").is_ok() {
                let log = rt::live_snapshot();
                let mut cn = Canon::new();
                let _ = std::fs::write("/tmp/vh_cq_escape.trace", format!("{spec:?}\n{}", cn.lines(&log).join("\n")));
                std::process::exit(3);
            }
        }
    }
    // every finished top half (= send) has had its bottom half run exactly once – by a poll or by the final drain –
    // except a last send that was refused by a cancel
    for (i, c) in ctxs.iter().enumerate() {
        let (td, bs) = (c.top_done.load(SeqCst), c.bot_start.load(SeqCst));
        let k = consumed.get(i).map(|x| x.load(SeqCst)).unwrap_or(0);
        if bs > td || bs + 1 < td || bs < k {
            sh.fail(format!("event-once: arm {i} finished {td} top halves, {bs} bottom halves were started, {k} events were returned by poll"));
        }
    }
}

fn run_inproc(spec: Spec) -> Vec<String> {
    GRAVEYARD.lock().unwrap_or_else(|e| e.into_inner()).clear(); // the previous scenario ended at least 3 ms ago
    if std::env::var("VH_CQ_DEBUG_PANICKING").is_ok() {
        for k in 0..4 {
            let h = unsafe { coroutine::Builder::new().name(format!("probe{k}")).spawn(move || std::thread::panicking()).unwrap() };
            if let Ok(true) = h.join() {
                eprintln!("PROBE: thread::panicking() is true in a fresh coroutine before {spec:?}");
            }
        }
    }
    let sh = Arc::new(Shared { scope_live: AtomicBool::new(true), poller_thread: AtomicU64::new(0), fails: StdMutex::new(vec![]) });
    let mut ctxs = vec![];
    let mut feeds = vec![];
    let mut keep_alive = vec![];
    for (i, a) in spec.arms.iter().enumerate() {
        let (tx, rx) = mpsc::channel::<u32>();
        let (ntx, nrx) = mpsc::channel::<u32>();
        keep_alive.push(ntx);
        if a.top == Top::Recv {
            match a.feed {
                Feed::Live => feeds.push((tx.clone(), a.rounds)),
                Feed::Pre => {
                    for _ in 0..a.rounds {
                        let _ = tx.send(1);
                    }
                }
                Feed::Never => {}
            }
        }
        keep_alive.push(tx);
        ctxs.push(Arc::new(ArmCtx {
            i,
            spec: a.clone(),
            round: AtomicUsize::new(0),
            top_done: AtomicUsize::new(0),
            bot_start: AtomicUsize::new(0),
            bot_done: AtomicUsize::new(0),
            ended: AtomicBool::new(false),
            panicked: AtomicBool::new(false),
            last_round_ends: spec.style == Style::Select || (spec.style == Style::Macros && a.rounds == 1 && a.end != End::Block),
            rx: StdMutex::new(Some(rx)),
            never: StdMutex::new(Some(nrx)),
            sh: sh.clone(),
        }));
    }
    // a scenario has a few hundred events; a flood means a livelock that keeps producing hooked events (the watchdog of
    // `vh` only sees silence): stop logging, the watchdog then reports the hang with the trace so far
    let ev0 = rt::LIVE_EVENTS.load(SeqCst);
    let over = Arc::new(AtomicBool::new(false));
    let over2 = over.clone();
    std::thread::spawn(move || {
        while !over2.load(SeqCst) {
            if rt::LIVE_EVENTS.load(SeqCst).wrapping_sub(ev0) > 40_000 {
                call("livelock.detected", 40_000, 0);
                rt::live_stop();
                return;
            }
            std::thread::sleep(Duration::from_millis(5));
        }
    });
    let gap = spec.feed_gap_us;
    let feeder = spawn_actor_thread("t1", move || {
        let mut left: Vec<u32> = feeds.iter().map(|f| f.1).collect();
        while left.iter().any(|l| *l > 0) {
            for (k, f) in feeds.iter().enumerate() {
                if left[k] > 0 {
                    left[k] -= 1;
                    let _ = f.0.send(1);
                    std::thread::sleep(Duration::from_micros(20 + gap));
                }
            }
        }
    });
    let (rm_tx, rm_rx) = std::sync::mpsc::channel::<(usize, u64, cqueue::Selector)>();
    let remover = spawn_actor_thread("t2", move || {
        while let Ok((i, us, s)) = rm_rx.recv() {
            std::thread::sleep(Duration::from_micros(us));
            call("cq.remove", i as u64, 0);
            s.remove();
            ret("cq.remove", i as u64);
        }
    });
    if spec.poller_co {
        let (spec2, ctxs2, sh2) = (spec.clone(), ctxs.clone(), sh.clone());
        let h = unsafe { coroutine::Builder::new().name("p".into()).stack_size(0x4000).spawn(move || poller(&spec2, &ctxs2, &sh2, rm_tx)).unwrap() };
        GRAVEYARD.lock().unwrap_or_else(|e| e.into_inner()).push(h.coroutine().clone());
        if h.join().is_err() {
            sh.fail("poller coroutine panicked outside the scope".into());
        }
    } else {
        poller(&spec, &ctxs, &sh, rm_tx);
    }
    let _ = feeder.join();
    let _ = remover.join();
    over.store(true, SeqCst);
    drop(keep_alive);
    let f = sh.fails.lock().unwrap_or_else(|e| e.into_inner()).clone();
    f
}

/// the seed that `Rng::new` turns into this generator state (up to the masked low bit)
fn seed_of(state: u64) -> u64 {
    const K: u64 = 0x9E3779B97F4A7C15;
    let mut inv: u64 = K; // Newton iteration for the inverse of an odd number modulo 2^64
    for _ in 0..6 {
        inv = inv.wrapping_mul(2u64.wrapping_sub(K.wrapping_mul(inv)));
    }
    (state ^ 0xD1B54A32D192ED03).wrapping_mul(inv)
}

fn run_in_child(seed: u64, tier: u32) -> Result<(), String> {
    let exe = std::env::current_exe().map_err(|e| format!("child: no current_exe: {e}"))?;
    let tag = format!("{}_{}", std::process::id(), seed);
    let out = std::env::temp_dir().join(format!("vh_cq_child_{tag}.trace"));
    let dump = std::env::temp_dir().join(format!("vh_cq_child_{tag}.dump"));
    let workers = may::config().get_workers();
    let mut ch = std::process::Command::new(exe)
        .args(["live", "cqueue", &seed.to_string(), "1", out.to_str().unwrap(), &tier.to_string()])
        .env("VH_CQ_CHILD", "1")
        .env("RUST_BACKTRACE", "0")
        .env("VH_CQ_DUMP", &dump)
        .env("VH_WORKERS", workers.to_string())
        .stdout(std::process::Stdio::piped())
        .stderr(std::process::Stdio::piped())
        .spawn()
        .map_err(|e| format!("child: spawn failed: {e}"))?;
    let t0 = Instant::now();
    let status = loop {
        match ch.try_wait() {
            Ok(Some(s)) => break s,
            Ok(None) if t0.elapsed() > Duration::from_secs(30) => {
                let _ = ch.kill();
                let _ = ch.wait();
                let _ = std::fs::remove_file(&out);
                let _ = std::fs::remove_file(&dump);
                return Err("child-hang: the abort-prone scenario did not finish in a child process within 30 s".into());
            }
            Ok(None) => {
                rt::LIVE_EVENTS.fetch_add(1, SeqCst); // the watchdog of this process must not fire while the child runs
                std::thread::sleep(Duration::from_millis(2))
            }
            Err(e) => return Err(format!("child: wait failed: {e}")),
        }
    };
    use std::io::Read;
    let (mut so, mut se) = (String::new(), String::new());
    if let Some(mut o) = ch.stdout.take() {
        let _ = o.read_to_string(&mut so);
    }
    if let Some(mut e) = ch.stderr.take() {
        let _ = e.read_to_string(&mut se);
    }
    let tail = std::fs::read_to_string(&dump).unwrap_or_default();
    let _ = std::fs::remove_file(&out);
    let _ = std::fs::remove_file(&dump);
    use std::os::unix::process::ExitStatusExt;
    if let Some(sig) = status.signal() {
        // keep the panic messages, drop the backtrace frames
        let se: String = se
            .lines()
            .map(|l| l.trim())
            .filter(|l| {
                !l.is_empty()
                    && !l.starts_with("note:")
                    && !l.starts_with("stack backtrace")
                    && !l.starts_with("at ")
                    && !l.split(':').next().map(|h| !h.is_empty() && h.chars().all(|c| c.is_ascii_digit())).unwrap_or(false)
            })
            .collect::<Vec<_>>()
            .join(" | ");
        let se: String = if se.chars().count() > 900 { se.chars().rev().take(900).collect::<String>().chars().rev().collect() } else { se };
        return Err(format!(
            "process-abort: re-raising an arm's panic killed the process with signal {sig}{} instead of propagating the panic; stderr: {se}; last events: {tail}",
            if sig == 6 { " (SIGABRT)" } else { "" }
        ));
    }
    // forward the child's oracle failures
    if let Some(p) = so.find("\"oracle_failures\":[") {
        let rest = &so[p + 19..];
        let end = rest.find("],\"unresolved").unwrap_or(rest.len());
        if !rest[..end].trim().is_empty() {
            return Err(format!("child-run: {}", rest[..end].replace('"', "'")));
        }
        return Ok(());
    }
    Err(format!("child: no result line (exit {:?}); stderr: {}", status.code(), se.chars().rev().take(400).collect::<String>().chars().rev().collect::<String>()))
}

/// panics of arms are part of the scenarios: the default hook would print a backtrace on the 32 KB coroutine stack
/// (overflow). Parent: quiet hook. Child (abort probe): message only, plus a dump of the last events for the report.
fn install_hook() {
    static ONCE: std::sync::Once = std::sync::Once::new();
    ONCE.call_once(|| match std::env::var("VH_CQ_DUMP") {
        Ok(path) => std::panic::set_hook(Box::new(move |info| {
            let path = path.clone();
            // on a fresh thread: the panicking coroutine has a small stack
            let _ = std::thread::spawn(move || {
                let log = rt::live_snapshot();
                let mut c = Canon::new();
                let lines = c.lines(&log);
                let keep: Vec<&String> = lines.iter().filter(|l| !l.contains(" note ")).collect();
                let from = keep.len().saturating_sub(40);
                let txt = keep[from..].iter().map(|s| s.as_str()).collect::<Vec<_>>().join(" | ");
                let _ = std::fs::write(&path, txt);
            })
            .join();
            eprintln!("{info}");
        })),
        Err(_) => std::panic::set_hook(Box::new(|info| {
            let p = info.payload();
            let msg = p.downcast_ref::<String>().cloned().or(p.downcast_ref::<&str>().map(|s| s.to_string()));
            match msg {
                Some(m) if !m.ends_with("-boom") => eprintln!("{info}"),
                _ => {}
            }
        })),
    });
}

pub fn build(rng: &mut Rng, tier: u32) -> LiveBuilt {
    let seed = seed_of(rng.0);
    let spec = gen(rng, tier);
    let abort_prone = spec.arms.iter().any(|a| matches!(a.end, End::PanicTop | End::PanicBottom));
    let child = std::env::var("VH_CQ_CHILD").is_ok();
    let header = format!(
        "family=cqueue arms={} poller={} style={}",
        spec.arms.len(),
        if spec.poller_co { "co" } else { "thread" },
        match spec.style {
            Style::Go => "go",
            Style::Macros => "macros",
            Style::Select => "select",
        }
    );
    LiveBuilt {
        header,
        filter: vec!["src/cqueue.rs", "src/cancel.rs", "src/sync/mutex.rs", "src/sync/poison.rs"],
        hang_ms: 8_000,
        run: Box::new(move || {
            install_hook();
            if std::env::var("VH_CQ_DEBUG_SPEC").is_ok() {
                eprintln!("seed~{seed} {spec:?}");
            }
            if let Ok(ms) = std::env::var("VH_CQ_DEBUG_MS") {
                // debugging aid: dump the trace so far after `ms` milliseconds
                let ms: u64 = ms.parse().unwrap_or(1000);
                std::thread::spawn(move || {
                    std::thread::sleep(Duration::from_millis(ms));
                    let log = rt::live_snapshot();
                    let mut c = Canon::new();
                    let _ = std::fs::write("/tmp/vh_cq_debug.trace", c.lines(&log).join("\n"));
                });
            }
            if !child && abort_prone {
                // defect F9 aborts the process: find out in a child process first
                if let Err(e) = run_in_child(seed, tier) {
                    return vec![format!("{e}; scenario: {spec:?}")];
                }
            }
            run_inproc(spec)
        }),
    }
}

/// Family `cqueue_co` (defect F25): the poller is a COROUTINE and the arms send while it is entering its park, so that
/// `EventSender::subscribe`'s `unpark` finds the poller's `wait_co` still empty, the poller's own `Park::subscribe`
/// resumes it in place (`fast_wake_up`) and it runs the arm inside `poll()` on top of that frame. `src/park.rs` is in
/// the filter: the perturbation can stall the sender inside `w.unpark()` (between `state.swap` and `wait_co.take`), i.e.
/// between the wake-up and the end of `subscribe`, where the order "clear `wait_kernel`, then drop the blocker" matters:
/// with the blocker dropped first, `Park::drop` (last reference) waits for the poller's subscribe frame, which waits for
/// the arm, which spins in `send` on `wait_kernel` – two threads spin for ever. The spins load hooked atomics, so the
/// hang shows as an event flood: the flood guard of `run_inproc` stops the log and the watchdog reports `hang`.
pub fn build_co(rng: &mut Rng, tier: u32) -> LiveBuilt {
    let n = 1 + rng.below(if tier > 0 { 4 } else { 3 }) as usize;
    let style = if rng.chance(600) { Style::Go } else { Style::Macros };
    let arms = (0..n)
        .map(|_| ArmSpec {
            rounds: 2 + rng.below(4) as u32,
            top: match rng.below(4) {
                0 | 1 => Top::Now,
                2 => Top::Yield(rng.below(2) as u32),
                _ => Top::Sleep(50 + rng.below(300)),
            },
            end: End::Normal,
            end_round: 0,
            remove_us: None,
            feed: Feed::Pre,
        })
        .collect::<Vec<_>>();
    let spec = Spec { style, poller_co: true, arms, polls: vec![], max_ok: usize::MAX, catch_inside: false, feed_gap_us: 0, drain_all: true };
    let header = format!("family=cqueue_co arms={} poller=co style={}", n, if style == Style::Go { "go" } else { "macros" });
    LiveBuilt {
        header,
        filter: vec!["src/cqueue.rs", "src/cancel.rs", "src/sync/mutex.rs", "src/sync/poison.rs", "src/park.rs"],
        hang_ms: 6_000,
        run: Box::new(move || {
            install_hook();
            run_inproc(spec)
        }),
    }
}
