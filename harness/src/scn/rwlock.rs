//! C12: may::sync::RwLock in thread context (det mode)
//!
//! Two families share this file:
//! * `rwlock_reg` – regression corpus: the witness shapes of the defects F1a / F1b of the pinned tree
//!   (a poisoned lock, then `try_read` + drop of the guard inside `Poisoned`; a poisoned lock, then
//!   several simultaneous `write`/`try_write`/`read`/`try_read` callers). Listed first in `tools/props.py`, so
//!   these scenarios run first; the seed still picks the schedule.
//! * `rwlock` – generated mixes of read/write/try_read/try_write/guard-drop by 2–5 threads, with poisoning by a
//!   panic while holding the write guard and guards recovered from `PoisonError`.
//!
//! Oracles (independent of the model): reader/writer occupancy counters inside the critical sections, a
//! non-atomic payload that a writer tears while it holds the guard, no panic out of any API call or guard
//! drop, a final `try_write` after all guards are dropped must not report `WouldBlock`, `is_poisoned` iff a
//! write guard was dropped by a panic; completion (deadlock detection is done by the controller).
use super::Built;
use crate::rt::{call, ret, Actor, Rng};
use may::sync::{RwLock, RwLockReadGuard, RwLockWriteGuard};
use std::panic::{catch_unwind, AssertUnwindSafe};
use std::sync::atomic::{AtomicUsize, Ordering};
use std::sync::{Arc, Mutex as StdMutex, TryLockError};

#[derive(Clone, Copy, Debug, PartialEq)]
enum Op {
    Read,       // R  blocking read, keep the guard
    Write,      // W  blocking write, keep the guard
    TryRead,    // r
    TryWrite,   // w
    Drop,       // d  drop the oldest guard held by this actor
    PanicDrop,  // p  drop the write guard held by this actor by unwinding a panic through it (poisons)
    Peek,       // i  is_poisoned(): one hooked load, i.e. a schedule point while the actor holds its guards
}

fn letter(o: Op) -> char {
    match o {
        Op::Read => 'R',
        Op::Write => 'W',
        Op::TryRead => 'r',
        Op::TryWrite => 'w',
        Op::Drop => 'd',
        Op::PanicDrop => 'p',
        Op::Peek => 'i',
    }
}

enum G {
    R(RwLockReadGuard<'static, i64>),
    W(RwLockWriteGuard<'static, i64>),
}

struct Shared {
    lock: &'static RwLock<i64>,
    readers: AtomicUsize,
    writers: AtomicUsize,
    /// guards handed out and not yet given back (all kinds)
    outstanding: AtomicUsize,
    poisoned_by_us: AtomicUsize,
    fails: StdMutex<Vec<String>>,
}

impl Shared {
    fn fail(&self, s: String) {
        let mut v = self.fails.lock().unwrap_or_else(|e| e.into_inner());
        if v.len() < 8 {
            v.push(s);
        }
    }
    /// bookkeeping at the moment a guard is handed out (still before the `ret` event: inside the critical section)
    fn enter(&self, w: bool, g: &G) {
        self.outstanding.fetch_add(1, Ordering::SeqCst);
        if w {
            let nw = self.writers.fetch_add(1, Ordering::SeqCst) + 1;
            let nr = self.readers.load(Ordering::SeqCst);
            if nw > 1 {
                self.fail(format!("exclusion violated (two writers): {nw} write guards are held at once"));
            }
            if nr > 0 {
                self.fail(format!("exclusion violated (writer among readers): a write guard was handed out while {nr} read guards are held"));
            }
        } else {
            self.readers.fetch_add(1, Ordering::SeqCst);
            let nw = self.writers.load(Ordering::SeqCst);
            if nw > 0 {
                self.fail(format!("exclusion violated (reader under a writer): a read guard was handed out while {nw} write guards are held"));
            }
        }
        // the payload is even whenever no writer is inside
        let v = match g {
            G::R(g) => **g,
            G::W(g) => **g,
        };
        if v % 2 != 0 {
            self.fail(format!("torn payload seen under a fresh guard: {v}"));
        }
    }
    fn leave(&self, w: bool) {
        self.outstanding.fetch_sub(1, Ordering::SeqCst);
        if w {
            self.writers.fetch_sub(1, Ordering::SeqCst);
        } else {
            self.readers.fetch_sub(1, Ordering::SeqCst);
        }
    }
}

fn msg_of(e: Box<dyn std::any::Any + Send>) -> String {
    e.downcast_ref::<String>()
        .cloned()
        .or(e.downcast_ref::<&str>().map(|s| s.to_string()))
        .unwrap_or_else(|| "<non-string panic>".into())
}

/// run one acquiring call; result code 0 = WouldBlock, 1 = Ok(guard), 2 = Poisoned(guard)
fn acquire(sh: &Shared, op: Op, held: &mut Vec<G>) -> bool {
    let l = sh.lock;
    let name = match op {
        Op::Read => "rwlock.read",
        Op::Write => "rwlock.write",
        Op::TryRead => "rwlock.try_read",
        _ => "rwlock.try_write",
    };
    call(name, 0, 0);
    let r = catch_unwind(AssertUnwindSafe(|| -> (u64, Option<G>) {
        match op {
            Op::Read => match l.read() {
                Ok(g) => (1, Some(G::R(g))),
                Err(p) => (2, Some(G::R(p.into_inner()))),
            },
            Op::Write => match l.write() {
                Ok(g) => (1, Some(G::W(g))),
                Err(p) => (2, Some(G::W(p.into_inner()))),
            },
            Op::TryRead => match l.try_read() {
                Ok(g) => (1, Some(G::R(g))),
                Err(TryLockError::Poisoned(p)) => (2, Some(G::R(p.into_inner()))),
                Err(TryLockError::WouldBlock) => (0, None),
            },
            _ => match l.try_write() {
                Ok(g) => (1, Some(G::W(g))),
                Err(TryLockError::Poisoned(p)) => (2, Some(G::W(p.into_inner()))),
                Err(TryLockError::WouldBlock) => (0, None),
            },
        }
    }));
    match r {
        Ok((code, g)) => {
            if let Some(mut g) = g {
                let w = matches!(g, G::W(_));
                sh.enter(w, &g);
                if let G::W(g) = &mut g {
                    **g += 1; // odd while a writer is inside
                }
                held.push(g);
            }
            ret(name, code);
            true
        }
        Err(e) => {
            sh.fail(format!("API call panicked: {name}: {}", msg_of(e)));
            false
        }
    }
}

/// give one guard back; `by_panic` unwinds a panic through a write guard (this is what poisons the lock)
fn release(sh: &Shared, g: G, by_panic: bool) -> bool {
    let w = matches!(g, G::W(_));
    let name = if w { "rwlock.drop_w" } else { "rwlock.drop_r" };
    let mut g = g;
    if let G::W(g) = &mut g {
        **g += 1; // even again
    }
    sh.leave(w);
    call(name, by_panic as u64, 0);
    // the guard is dropped inside its own catch_unwind (also when this happens while a panic unwinds through the
    // frame that owns it): a panic out of a guard's drop is an oracle failure, not a process abort
    struct Wrap(Option<G>, Arc<StdMutex<Option<Result<(), String>>>>);
    impl Drop for Wrap {
        fn drop(&mut self) {
            let g = self.0.take();
            let r = catch_unwind(AssertUnwindSafe(move || drop(g))).map_err(msg_of);
            *self.1.lock().unwrap_or_else(|e| e.into_inner()) = Some(r);
        }
    }
    let out = Arc::new(StdMutex::new(None));
    let w2 = Wrap(Some(g), out.clone());
    let r = catch_unwind(AssertUnwindSafe(move || {
        let _w = w2;
        if by_panic {
            panic!("deliberate panic while holding the write guard");
        }
    }));
    let dropped = out.lock().unwrap_or_else(|e| e.into_inner()).take();
    match dropped {
        Some(Ok(())) if r.is_err() == by_panic => {
            if by_panic {
                sh.poisoned_by_us.fetch_add(1, Ordering::SeqCst);
            }
            ret(name, 0);
            true
        }
        Some(Err(m)) => {
            sh.fail(format!("guard drop panicked: {name}: {m}"));
            false
        }
        _ => {
            sh.fail(format!("guard drop did not complete: {name}"));
            false
        }
    }
}

fn actor(sh: Arc<Shared>, ops: Vec<Op>) -> Actor {
    Box::new(move || {
        let mut held: Vec<G> = vec![];
        for op in ops {
            let holds_w = held.iter().any(|g| matches!(g, G::W(_)));
            let alive = match op {
                // a thread that already holds a guard must not block on the same lock (self-deadlock, as with std):
                // it first gives its guards back
                Op::Write | Op::Read => {
                    let mut ok = true;
                    while ok && !held.is_empty() && (op == Op::Write || holds_w) {
                        ok = release(&sh, held.remove(0), false);
                        if !held.iter().any(|g| matches!(g, G::W(_))) && op == Op::Read {
                            break;
                        }
                    }
                    ok && acquire(&sh, op, &mut held)
                }
                Op::TryRead | Op::TryWrite => acquire(&sh, op, &mut held),
                Op::Peek => {
                    call("rwlock.is_poisoned", 0, 0);
                    let p = sh.lock.is_poisoned();
                    ret("rwlock.is_poisoned", p as u64);
                    true
                }
                Op::Drop => {
                    if held.is_empty() {
                        true
                    } else {
                        release(&sh, held.remove(0), false)
                    }
                }
                Op::PanicDrop => match held.iter().position(|g| matches!(g, G::W(_))) {
                    Some(i) => release(&sh, held.remove(i), true),
                    None => true,
                },
            };
            if !alive {
                // an API call or a guard drop panicked: this actor stops; what it still holds is leaked on purpose
                // (dropping it could panic again) and shows up in the final free-lock oracle
                for g in held.drain(..) {
                    std::mem::forget(g);
                }
                return;
            }
        }
        while !held.is_empty() {
            if !release(&sh, held.remove(0), false) {
                for g in held.drain(..) {
                    std::mem::forget(g);
                }
                return;
            }
        }
    })
}

fn finish(fam: &str, programs: Vec<Vec<Op>>, prepoison: bool, extra: String) -> Built {
    let nt = programs.len();
    let lock: &'static RwLock<i64> = Box::leak(Box::new(RwLock::new(0i64))); // leaked on purpose (tiny): guards are 'static
    if prepoison {
        // the scenario starts on a poisoned, free lock (done outside the controlled run: not part of the trace)
        let _ = catch_unwind(AssertUnwindSafe(|| {
            let _g = lock.write().unwrap();
            panic!("poison the lock before the run");
        }));
        assert!(lock.is_poisoned());
    }
    let sh = Arc::new(Shared {
        lock,
        readers: AtomicUsize::new(0),
        writers: AtomicUsize::new(0),
        outstanding: AtomicUsize::new(0),
        poisoned_by_us: AtomicUsize::new(prepoison as usize),
        fails: StdMutex::new(vec![]),
    });
    let desc: Vec<String> = programs.iter().map(|p| p.iter().map(|o| letter(*o)).collect()).collect();
    let names: Vec<String> = (0..nt).map(|t| format!("t{t}")).collect();
    let actors: Vec<Actor> = programs.into_iter().map(|p| actor(sh.clone(), p)).collect();
    let sh2 = sh.clone();
    Built {
        header: format!("family={fam} actors={nt} poisoned={} ops={}{extra}", prepoison as u32, desc.join(",")),
        names,
        actors,
        check: Box::new(move |r| {
            let mut v: Vec<String> = sh2.fails.lock().unwrap_or_else(|e| e.into_inner()).clone();
            let complete = r.deadlock.is_none() && !r.budget_exceeded && r.panics.is_empty();
            if complete {
                let out = sh2.outstanding.load(Ordering::SeqCst);
                if out != 0 && v.is_empty() {
                    v.push(format!("harness: {out} guards unaccounted for"));
                }
                // every guard has been dropped: the lock must be free again
                let l = sh2.lock;
                match catch_unwind(AssertUnwindSafe(|| match l.try_write() {
                    Ok(g) => Some(*g),
                    Err(TryLockError::Poisoned(p)) => Some(**p.get_ref()),
                    Err(TryLockError::WouldBlock) => None,
                })) {
                    Ok(Some(d)) => {
                        if d % 2 != 0 {
                            v.push(format!("torn payload at the end: {d}"));
                        }
                    }
                    Ok(None) => v.push("lock not free after all guards were dropped: final try_write reports WouldBlock".into()),
                    Err(e) => v.push(format!("API call panicked: final try_write: {}", msg_of(e))),
                }
                let want = sh2.poisoned_by_us.load(Ordering::SeqCst) > 0;
                if l.is_poisoned() != want {
                    v.push(format!("poison flag is {} but {} write guards were dropped by a panic", l.is_poisoned(), sh2.poisoned_by_us.load(Ordering::SeqCst)));
                }
            }
            v
        }),
        filter: vec!["sync/rwlock.rs", "sync/mutex.rs", "sync/blocking.rs", "sync/poison.rs"],
        timeout_permille: 0,
    }
}

/// generated mixes
pub fn build(rng: &mut Rng, tier: u32) -> Built {
    let nt = 2 + rng.below(if tier > 0 { 4 } else { 3 }) as usize;
    let max_ops = if tier > 0 { 7 } else { 4 };
    // how eager this scenario is to poison the lock, and whether it starts poisoned
    let poison_permille = [0u64, 150, 400][rng.below(3) as usize];
    let prepoison = poison_permille > 0 && rng.chance(300);
    let mut programs = vec![];
    for t in 0..nt {
        let nops = 1 + rng.below(max_ops) as usize;
        let mut ops = vec![];
        if t == 0 && poison_permille > 0 && rng.chance(500) {
            ops.push(Op::Write);
            ops.push(Op::PanicDrop);
        }
        let mut last_w = false;
        for _ in 0..nops {
            let o = if last_w && rng.chance(poison_permille) {
                Op::PanicDrop
            } else {
                match rng.below(100) {
                    0..=24 => Op::Read,
                    25..=44 => Op::Write,
                    45..=59 => Op::TryRead,
                    60..=74 => Op::TryWrite,
                    75..=84 => Op::Peek,
                    _ => Op::Drop,
                }
            };
            last_w = matches!(o, Op::Write | Op::TryWrite);
            ops.push(o);
        }
        programs.push(ops);
    }
    finish("rwlock", programs, prepoison, String::new())
}

/// regression corpus: the witness shapes of F1a and F1b (pinned tree before the fixes)
pub fn build_reg(rng: &mut Rng, _tier: u32) -> Built {
    use Op::*;
    let shape = rng.below(8);
    let (pre, programs): (bool, Vec<Vec<Op>>) = match shape {
        // F1a: poison, then try_read hands out a guard inside Poisoned; dropping it must un-count exactly one reader
        0 => (false, vec![vec![Write, PanicDrop, TryRead, Drop, TryRead, TryRead, Drop, Drop]]),
        1 => (true, vec![vec![TryRead, Peek, Drop, TryWrite, Drop], vec![TryRead, Drop, Read, Drop]]),
        2 => (false, vec![vec![Write, PanicDrop, TryRead, Drop], vec![TryRead, Drop, Read, Drop], vec![TryWrite, Drop]]),
        // F1b: simultaneous callers race on a free, poisoned lock: a lost CAS must be WouldBlock, not "acquired"
        3 => (true, vec![vec![Write, Peek, Drop], vec![Write, Peek, Drop]]),
        4 => (true, vec![vec![TryWrite, Peek, Drop], vec![TryWrite, Peek, Drop], vec![TryWrite, Peek, Drop]]),
        5 => (true, vec![vec![Write, Peek, Drop, TryWrite, Drop], vec![Read, Peek, Drop, Write, Drop], vec![TryWrite, Peek, Drop, Read, Drop]]),
        6 => (true, vec![vec![Read, Peek, Peek, Drop], vec![Write, Peek, Drop], vec![Write, Peek, Drop]]),
        _ => (false, vec![vec![Write, PanicDrop, Write, Peek, Drop], vec![Write, Peek, Drop], vec![TryWrite, Peek, Drop, TryWrite, Drop]]),
    };
    finish("rwlock_reg", programs, pre, format!(" shape={shape}"))
}
