//! C06 / C07: what the three channel families (`ch_mpsc`, `ch_spsc`, `ch_mpmc`) share:
//! the payload with its drop counter, the encoding of API results in `call/ret` events and the
//! property oracles (independent of the Lean model) evaluated on the recorded API history.
use crate::rt::DetResult;
use std::sync::{Arc, Mutex as StdMutex};

/// payload: one machine word, so that `q.push / q.pop` events carry it (`item_id`);
/// id = (sending actor + 1) * 1000 + sequence number of the send in that actor
pub struct Msg(pub usize);

pub const MAX_ID: usize = 16 * 1000;
static DROPS: StdMutex<Vec<u32>> = StdMutex::new(Vec::new());

impl Drop for Msg {
    fn drop(&mut self) {
        let mut d = DROPS.lock().unwrap_or_else(|e| e.into_inner());
        if self.0 < d.len() {
            d[self.0] += 1;
        }
    }
}

pub fn reset_drops() {
    let mut d = DROPS.lock().unwrap_or_else(|e| e.into_inner());
    d.clear();
    d.resize(MAX_ID, 0);
}
pub fn drops_of(id: usize) -> u32 {
    DROPS.lock().unwrap_or_else(|e| e.into_inner())[id]
}

pub fn msg_id(actor: usize, seq: usize) -> usize {
    (actor + 1) * 1000 + seq
}

// result codes in `ret` events (printed as signed integers)
pub const R_DISC: u64 = u64::MAX; // -1  Disconnected / RecvError
pub const R_EMPTY: u64 = u64::MAX - 1; // -2  TryRecvError::Empty
pub const R_TMO: u64 = u64::MAX - 2; // -3  RecvTimeoutError::Timeout

#[derive(Clone, Copy, Debug, PartialEq)]
pub enum What {
    /// send(id) returned Ok; `.1` = the drop of the last receiver had already returned when the call started
    SendOk(usize, bool),
    /// send(id) returned Err carrying the value `.1`
    SendErr(usize, usize),
    /// a receive call (0 = try_recv, 1 = recv, 2 = recv_timeout) returned this code (id or R_*)
    Recv(u8, u64),
    /// this actor's (last) receiver handle has been dropped
    RxDropped,
}

#[derive(Clone, Copy, Debug)]
pub struct Rec {
    pub actor: usize,
    pub what: What,
}

pub type Hist = Arc<StdMutex<Vec<Rec>>>;

pub fn record(h: &Hist, actor: usize, what: What) {
    h.lock().unwrap_or_else(|e| e.into_inner()).push(Rec { actor, what });
}

/// the oracles of C06 / C07 on a finished history.
/// `created`: every message id that was constructed; `all_rx_drain`: every receiver handle was used until it
/// returned Disconnected before it was dropped (otherwise unreceived values are legitimately dropped instead)
pub fn check_history(r: &DetResult, hist: &Hist, created: &[usize], all_rx_drain: bool) -> Vec<String> {
    let mut v = vec![];
    let h = hist.lock().unwrap_or_else(|e| e.into_inner()).clone();
    let complete = r.deadlock.is_none() && !r.budget_exceeded && r.panics.is_empty();
    let mut sent_ok = std::collections::BTreeSet::new();
    let mut recv_cnt = std::collections::BTreeMap::new();
    let mut last_seq: std::collections::BTreeMap<(usize, usize), usize> = Default::default();
    let mut saw_disc: std::collections::BTreeSet<usize> = Default::default();
    for rec in &h {
        match rec.what {
            What::SendOk(id, rx_gone) => {
                sent_ok.insert(id);
                if rx_gone {
                    v.push(format!("send({id}) returned Ok although the last receiver had been dropped before the call"));
                }
            }
            What::SendErr(id, back) => {
                if back != id {
                    v.push(format!("send({id}) failed but returned value {back}"));
                }
            }
            What::Recv(kind, code) => {
                if code == R_DISC {
                    saw_disc.insert(rec.actor);
                } else if code == R_EMPTY {
                    if kind != 0 {
                        v.push(format!("blocking receive (kind {kind}) of actor {} returned Empty", rec.actor));
                    }
                } else if code == R_TMO {
                    if kind != 2 {
                        v.push(format!("receive kind {kind} of actor {} returned Timeout", rec.actor));
                    }
                } else {
                    let id = code as usize;
                    *recv_cnt.entry(id).or_insert(0usize) += 1;
                    if saw_disc.contains(&rec.actor) {
                        v.push(format!("actor {} received {id} after it had got Disconnected", rec.actor));
                    }
                    let (s, q) = (id / 1000, id % 1000);
                    if let Some(&p) = last_seq.get(&(rec.actor, s)) {
                        if q <= p {
                            v.push(format!(
                                "per-sender order broken: receiver {} got seq {q} of sender {} after seq {p}",
                                rec.actor,
                                s - 1
                            ));
                        }
                    }
                    last_seq.insert((rec.actor, s), q);
                }
            }
            What::RxDropped => {}
        }
    }
    for (id, c) in &recv_cnt {
        if *c > 1 {
            v.push(format!("value {id} received {c} times"));
        }
        if complete && !sent_ok.contains(id) {
            v.push(format!("phantom: value {id} received but no send of it returned Ok"));
        }
    }
    if complete {
        for &id in created {
            let d = drops_of(id);
            if d != 1 {
                v.push(format!("value {id} dropped {d} times (must be exactly once)"));
            }
        }
        if all_rx_drain {
            // every receiver ran until Disconnected and none was dropped before: everything sent must have been received
            for id in &sent_ok {
                if !recv_cnt.contains_key(id) {
                    v.push(format!(
                        "disconnect before drain: value {id} was sent Ok, every receiver ran until Disconnected, yet nobody received it"
                    ));
                }
            }
        }
    }
    v
}
