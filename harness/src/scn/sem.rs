//! C10: may::sync::Semphore in thread context (det mode)
//!
//! ops per thread: wait / wait_timeout(d) / try_wait / post / get_value, initial value 0..3.
//! Time-outs are virtual (a schedule choice of the controller, `timeout_permille`).
//!
//! Scenarios are built so that a correct semaphore never deadlocks: an untimed `wait` is only generated when
//! `init + #posts that no untimed wait precedes in their own thread` >= `#all consuming operations`
//! (missing posts are inserted in front of a thread's first untimed wait). Then every untimed wait must
//! return; a hang is reported by the controller's deadlock detector.
//!
//! Oracles (plain std atomics, independent of the model; the det controller runs one actor at a time):
//!  * at every success:          successes <= init + posts started
//!  * at every get_value() = v:  v <= init + posts started - successes counted
//!  * at the end (no call outstanding):  get_value() == init + posts - successes
use super::Built;
use crate::rt::{call, ret, Actor, Rng};
use may::sync::Semphore;
use std::sync::atomic::{AtomicUsize, Ordering};
use std::sync::{Arc, Mutex as StdMutex};
use std::time::Duration;

#[derive(Clone, Copy, Debug, PartialEq)]
enum Op {
    Wait,
    WaitTimeout(u64),
    TryWait,
    Post,
    GetValue,
}

fn letter(o: &Op) -> String {
    match o {
        Op::Wait => "W".into(),
        Op::WaitTimeout(d) => format!("T{d}"),
        Op::TryWait => "Y".into(),
        Op::Post => "P".into(),
        Op::GetValue => "G".into(),
    }
}

pub fn build(rng: &mut Rng, tier: u32) -> Built {
    let nt = 2 + rng.below(if tier > 0 { 4 } else { 3 }) as usize;
    let max_ops = if tier > 0 { 6 } else { 4 };
    let init = rng.below(4) as usize;
    // three flavours: only timed waits (abort paths, permits scarce) / mixed / mostly untimed
    let flavour = rng.below(3);
    let durs = [0u64, 1, 1_000, 1_500_000, 10_000_000];
    let mut ops: Vec<Vec<Op>> = (0..nt)
        .map(|_| {
            let nops = 1 + rng.below(max_ops) as usize;
            (0..nops)
                .map(|_| {
                    let r = rng.below(100);
                    let d = durs[rng.below(durs.len() as u64) as usize];
                    match flavour {
                        0 => match r {
                            0..=44 => Op::WaitTimeout(d),
                            45..=54 => Op::TryWait,
                            55..=89 => Op::Post,
                            _ => Op::GetValue,
                        },
                        1 => match r {
                            0..=24 => Op::Wait,
                            25..=44 => Op::WaitTimeout(d),
                            45..=54 => Op::TryWait,
                            55..=89 => Op::Post,
                            _ => Op::GetValue,
                        },
                        _ => match r {
                            0..=44 => Op::Wait,
                            45..=49 => Op::WaitTimeout(d),
                            50..=54 => Op::TryWait,
                            55..=92 => Op::Post,
                            _ => Op::GetValue,
                        },
                    }
                })
                .collect()
        })
        .collect();
    // make the untimed waits safe: enough posts that no untimed wait can block
    let has_untimed = ops.iter().any(|l| l.contains(&Op::Wait));
    if has_untimed {
        let consumers: usize = ops
            .iter()
            .map(|l| l.iter().filter(|o| matches!(o, Op::Wait | Op::WaitTimeout(_) | Op::TryWait)).count())
            .sum();
        let uncond: usize = ops
            .iter()
            .map(|l| {
                let first_wait = l.iter().position(|o| *o == Op::Wait).unwrap_or(l.len());
                l[..first_wait].iter().filter(|o| **o == Op::Post).count()
            })
            .sum();
        let mut deficit = consumers.saturating_sub(init + uncond);
        while deficit > 0 {
            let t = rng.below(nt as u64) as usize;
            let first_wait = ops[t].iter().position(|o| *o == Op::Wait).unwrap_or(ops[t].len());
            let pos = rng.below(first_wait as u64 + 1) as usize;
            ops[t].insert(pos, Op::Post);
            deficit -= 1;
        }
    }
    let desc: Vec<String> = ops.iter().map(|l| l.iter().map(letter).collect::<Vec<_>>().join("")).collect();

    let sem = Arc::new(Semphore::new(init));
    let succ = Arc::new(AtomicUsize::new(0));
    let posts = Arc::new(AtomicUsize::new(0));
    let viol: Arc<StdMutex<Vec<String>>> = Arc::new(StdMutex::new(vec![]));
    let mut actors: Vec<Actor> = vec![];
    let mut names = vec![];
    for (t, l) in ops.into_iter().enumerate() {
        let (sem, succ, posts, viol) = (sem.clone(), succ.clone(), posts.clone(), viol.clone());
        names.push(format!("t{t}"));
        actors.push(Box::new(move || {
            let success = |what: &str| {
                let s = succ.fetch_add(1, Ordering::SeqCst) + 1;
                let p = posts.load(Ordering::SeqCst);
                if s > init + p {
                    viol.lock().unwrap().push(format!(
                        "permit duplicated: {what} succeeded, successes {s} > init {init} + posts {p}"
                    ));
                }
            };
            for op in l {
                match op {
                    Op::Wait => {
                        call("sem.wait", 0, 0);
                        sem.wait();
                        success("wait");
                        ret("sem.wait", 1);
                    }
                    Op::WaitTimeout(d) => {
                        call("sem.wait_timeout", d, 0);
                        let r = sem.wait_timeout(Duration::from_nanos(d));
                        if r {
                            success("wait_timeout");
                        }
                        ret("sem.wait_timeout", r as u64);
                    }
                    Op::TryWait => {
                        call("sem.try_wait", 0, 0);
                        let r = sem.try_wait();
                        if r {
                            success("try_wait");
                        }
                        ret("sem.try_wait", r as u64);
                    }
                    Op::Post => {
                        posts.fetch_add(1, Ordering::SeqCst);
                        call("sem.post", 0, 0);
                        sem.post();
                        ret("sem.post", 0);
                    }
                    Op::GetValue => {
                        call("sem.get_value", 0, 0);
                        let v = sem.get_value();
                        let p = posts.load(Ordering::SeqCst);
                        let s = succ.load(Ordering::SeqCst);
                        if v + s > init + p {
                            viol.lock().unwrap().push(format!(
                                "permit duplicated: get_value {v} > init {init} + posts {p} - successes {s}"
                            ));
                        }
                        ret("sem.get_value", v as u64);
                    }
                }
            }
        }));
    }
    let (sem2, succ2, posts2, viol2) = (sem.clone(), succ.clone(), posts.clone(), viol.clone());
    Built {
        header: format!("family=sem actors={} init={} ops={}", nt, init, desc.join(",")),
        names,
        actors,
        check: Box::new(move |r| {
            let mut v = viol2.lock().unwrap().clone();
            if r.deadlock.is_none() && !r.budget_exceeded && r.panics.is_empty() {
                let (s, p) = (succ2.load(Ordering::SeqCst), posts2.load(Ordering::SeqCst));
                let val = sem2.get_value();
                if s > init + p {
                    v.push(format!("permit duplicated: successes {s} > init {init} + posts {p}"));
                } else if val != init + p - s {
                    v.push(format!(
                        "permits not conserved: value {val} at the end != init {init} + posts {p} - successes {s}"
                    ));
                }
            }
            v
        }),
        filter: vec!["sync/semphore.rs", "sync/blocking.rs"],
        timeout_permille: 120,
    }
}
