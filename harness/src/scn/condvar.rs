//! C11: may::sync::Condvar (with its Mutex) in thread context (det mode, virtual time-outs)
//!
//! One `Mutex<usize>` ("permits") and one `Condvar`. Consumers wait for a permit with the standard
//! while-loop (`wait`, `wait_while`); producers add exactly one permit per consumer under the lock and
//! `notify_one` (under the lock or right after releasing it) or `notify_all`. Bystanders `wait_timeout`
//! once and never take a permit: when they are woken without time-out they pass the notification on
//! themselves (`notify_one`), when they time out the condvar has to (the hand-over under test). So a
//! correct condvar never deadlocks, and a notification dropped at a timed-out waiter leaves a consumer
//! parked with a permit available: the controller reports the deadlock.
use super::Built;
use crate::rt::{call, ret, Actor, Rng};
use may::sync::{Condvar, Mutex};
use std::sync::atomic::{AtomicUsize, Ordering};
use std::sync::Arc;
use std::time::Duration;

#[derive(Clone, Copy, Debug)]
enum Op {
    Wait,         // lock; while permits == 0 { wait }; permits -= 1; unlock
    WaitWhile,    // lock; wait_while(|p| *p == 0); permits -= 1; unlock
    WaitTimeout,  // lock; if permits == 0 { wait_timeout once; not timed out => notify_one (pass it on) }; unlock
    NotifyOne,    // lock; permits += 1; notify_one; unlock
    NotifyOneOut, // lock; permits += 1; unlock; notify_one
    NotifyAll(usize), // lock; permits += k; notify_all; unlock
    Poke,         // notify_one without touching the predicate and without the lock
    PokeAll,      // notify_all without touching the predicate and without the lock
}

struct Shared {
    m: Mutex<usize>,
    cv: Condvar,
    // hooked atomic: every update is a schedule point inside the critical section (its events are named `?.L<line>`
    // because the construction site is outside /repo; the model skips them)
    occ: may::verif::atomic::AtomicUsize,
    max_occ: AtomicUsize,
    waiting: AtomicUsize,      // threads currently inside a wait call (maintained under the lock)
    wake_capacity: AtomicUsize, // upper bound of wake-ups handed out by notifications
    ok_returns: AtomicUsize,   // waits that returned without time-out
    timeouts: AtomicUsize,
    produced: AtomicUsize,
    consumed: AtomicUsize,
    bad_pred: AtomicUsize, // wait_while returned while the predicate still said "wait"
}

impl Shared {
    fn enter(&self) {
        let o = self.occ.fetch_add(1, Ordering::SeqCst) + 1;
        self.max_occ.fetch_max(o, Ordering::SeqCst);
    }
    fn leave(&self) {
        self.occ.fetch_sub(1, Ordering::SeqCst);
    }
}

pub fn build(rng: &mut Rng, tier: u32) -> Built {
    let nt = 2 + rng.below(if tier > 0 { 4 } else { 3 }) as usize;
    let max_ops = if tier > 0 { 4 } else { 2 };
    let sh = Arc::new(Shared {
        m: Mutex::new(0usize),
        cv: Condvar::new(),
        occ: may::verif::atomic::AtomicUsize::new(0),
        max_occ: AtomicUsize::new(0),
        waiting: AtomicUsize::new(0),
        wake_capacity: AtomicUsize::new(0),
        ok_returns: AtomicUsize::new(0),
        timeouts: AtomicUsize::new(0),
        produced: AtomicUsize::new(0),
        consumed: AtomicUsize::new(0),
        bad_pred: AtomicUsize::new(0),
    });
    // roles: at least one consumer thread and one producer thread
    let mut plans: Vec<Vec<Op>> = vec![];
    let mut consumers = 0usize;
    for t in 0..nt {
        let consumer = if t == 0 { true } else if t == nt - 1 { false } else { rng.chance(550) };
        let nops = 1 + rng.below(max_ops) as usize;
        let mut ops = vec![];
        if consumer {
            for _ in 0..nops {
                let r = rng.below(100);
                let op = if r < 35 { Op::Wait } else if r < 50 { Op::WaitWhile } else { Op::WaitTimeout };
                if !matches!(op, Op::WaitTimeout) {
                    consumers += 1;
                }
                ops.push(op);
            }
        }
        plans.push(ops);
    }
    // producers: enough permits for every consumer operation, spread over the producer threads
    let producers: Vec<usize> = (0..nt).filter(|t| plans[*t].is_empty()).collect();
    let mut left = consumers;
    while left > 0 {
        let p = producers[rng.below(producers.len() as u64) as usize];
        let r = rng.below(100);
        if r < 25 && left >= 2 {
            let k = 2 + rng.below((left - 1).min(2) as u64) as usize;
            let k = k.min(left);
            plans[p].push(Op::NotifyAll(k));
            left -= k;
        } else if r < 45 {
            plans[p].push(Op::NotifyOneOut);
            left -= 1;
        } else {
            plans[p].push(Op::NotifyOne);
            left -= 1;
        }
        if rng.chance(120) {
            plans[p].push(if rng.chance(300) { Op::PokeAll } else { Op::Poke });
        }
    }
    if consumers == 0 {
        // only bystanders: poke them so that notifications still race their time-outs
        plans[producers[0]].push(Op::Poke);
        plans[producers[0]].push(if rng.chance(500) { Op::Poke } else { Op::PokeAll });
    }
    let mut names = vec![];
    let mut actors: Vec<Actor> = vec![];
    let mut desc = vec![];
    for (t, ops) in plans.into_iter().enumerate() {
        desc.push(
            ops.iter()
                .map(|o| match o {
                    Op::Wait => "W".to_string(),
                    Op::WaitWhile => "H".to_string(),
                    Op::WaitTimeout => "T".to_string(),
                    Op::NotifyOne => "n".to_string(),
                    Op::NotifyOneOut => "o".to_string(),
                    Op::NotifyAll(k) => format!("a{k}"),
                    Op::Poke => "p".to_string(),
                    Op::PokeAll => "P".to_string(),
                })
                .collect::<String>(),
        );
        names.push(format!("t{t}"));
        let sh = sh.clone();
        actors.push(Box::new(move || {
            for op in ops {
                match op {
                    Op::Wait => {
                        call("mutex.lock", 0, 0);
                        let mut g = sh.m.lock().unwrap();
                        sh.enter();
                        ret("mutex.lock", 1);
                        while *g == 0 {
                            sh.waiting.fetch_add(1, Ordering::SeqCst);
                            sh.leave();
                            call("cv.wait", 0, 0);
                            g = sh.cv.wait(g).unwrap();
                            sh.enter();
                            sh.waiting.fetch_sub(1, Ordering::SeqCst);
                            sh.ok_returns.fetch_add(1, Ordering::SeqCst);
                            ret("cv.wait", 0);
                        }
                        *g -= 1;
                        sh.consumed.fetch_add(1, Ordering::SeqCst);
                        call("mutex.unlock", 0, 0);
                        sh.leave();
                        drop(g);
                        ret("mutex.unlock", 0);
                    }
                    Op::WaitTimeout => {
                        call("mutex.lock", 0, 0);
                        let mut g = sh.m.lock().unwrap();
                        sh.enter();
                        ret("mutex.lock", 1);
                        if *g == 0 {
                            sh.waiting.fetch_add(1, Ordering::SeqCst);
                            sh.leave();
                            call("cv.wait_timeout", 0, 0);
                            let (g2, r) = sh.cv.wait_timeout(g, Duration::from_millis(10)).unwrap();
                            g = g2;
                            sh.enter();
                            sh.waiting.fetch_sub(1, Ordering::SeqCst);
                            if r.timed_out() {
                                sh.timeouts.fetch_add(1, Ordering::SeqCst);
                            } else {
                                sh.ok_returns.fetch_add(1, Ordering::SeqCst);
                            }
                            ret("cv.wait_timeout", r.timed_out() as u64);
                            if !r.timed_out() {
                                // a bystander that swallowed a notification passes it on itself; after a time-out
                                // that is the condvar's duty
                                sh.wake_capacity.fetch_add(1, Ordering::SeqCst);
                                call("cv.notify_one", 0, 0);
                                sh.cv.notify_one();
                                ret("cv.notify_one", 0);
                            }
                        }
                        let _ = &mut g;
                        call("mutex.unlock", 0, 0);
                        sh.leave();
                        drop(g);
                        ret("mutex.unlock", 0);
                    }
                    Op::WaitWhile => {
                        call("mutex.lock", 0, 0);
                        let g = sh.m.lock().unwrap();
                        sh.enter();
                        ret("mutex.lock", 1);
                        // the closure runs under the lock, before every internal wait and after every wake-up
                        sh.leave();
                        call("cv.wait_while", 0, 0);
                        let sh2 = sh.clone();
                        let mut first = true;
                        let mut g = sh
                            .cv
                            .wait_while(g, move |p| {
                                // occupancy: the predicate is evaluated while holding the mutex
                                sh2.enter();
                                if !first {
                                    sh2.waiting.fetch_sub(1, Ordering::SeqCst);
                                    sh2.ok_returns.fetch_add(1, Ordering::SeqCst);
                                }
                                first = false;
                                let w = *p == 0;
                                if w {
                                    sh2.waiting.fetch_add(1, Ordering::SeqCst);
                                }
                                sh2.leave();
                                w
                            })
                            .unwrap();
                        sh.enter();
                        if *g == 0 {
                            sh.bad_pred.fetch_add(1, Ordering::SeqCst);
                        }
                        ret("cv.wait_while", 0);
                        if *g > 0 {
                            *g -= 1;
                            sh.consumed.fetch_add(1, Ordering::SeqCst);
                        }
                        call("mutex.unlock", 0, 0);
                        sh.leave();
                        drop(g);
                        ret("mutex.unlock", 0);
                    }
                    Op::NotifyOne | Op::NotifyOneOut | Op::NotifyAll(_) => {
                        call("mutex.lock", 0, 0);
                        let mut g = sh.m.lock().unwrap();
                        sh.enter();
                        ret("mutex.lock", 1);
                        let k = if let Op::NotifyAll(k) = op { k } else { 1 };
                        *g += k;
                        sh.produced.fetch_add(k, Ordering::SeqCst);
                        match op {
                            Op::NotifyOne => {
                                sh.wake_capacity.fetch_add(1, Ordering::SeqCst);
                                call("cv.notify_one", 0, 0);
                                sh.cv.notify_one();
                                ret("cv.notify_one", 0);
                            }
                            Op::NotifyAll(_) => {
                                sh.wake_capacity.fetch_add(sh.waiting.load(Ordering::SeqCst), Ordering::SeqCst);
                                call("cv.notify_all", 0, 0);
                                sh.cv.notify_all();
                                ret("cv.notify_all", 0);
                            }
                            _ => {}
                        }
                        call("mutex.unlock", 0, 0);
                        sh.leave();
                        drop(g);
                        ret("mutex.unlock", 0);
                        if let Op::NotifyOneOut = op {
                            sh.wake_capacity.fetch_add(1, Ordering::SeqCst);
                            call("cv.notify_one", 0, 0);
                            sh.cv.notify_one();
                            ret("cv.notify_one", 0);
                        }
                    }
                    Op::Poke => {
                        sh.wake_capacity.fetch_add(1, Ordering::SeqCst);
                        call("cv.notify_one", 0, 0);
                        sh.cv.notify_one();
                        ret("cv.notify_one", 0);
                    }
                    Op::PokeAll => {
                        // without the lock the loop may also pop waiters that enqueue while it runs: no useful bound
                        sh.wake_capacity.fetch_add(1000, Ordering::SeqCst);
                        call("cv.notify_all", 0, 0);
                        sh.cv.notify_all();
                        ret("cv.notify_all", 0);
                    }
                }
            }
        }));
    }
    let sh2 = sh.clone();
    Built {
        header: format!("family=condvar actors={} ops={}", nt, desc.join(",")),
        names,
        actors,
        check: Box::new(move |r| {
            let mut v = vec![];
            let ld = |a: &AtomicUsize| a.load(Ordering::SeqCst);
            if ld(&sh2.max_occ) > 1 {
                v.push(format!("mutex not held exclusively on return from wait: {} holders at once", ld(&sh2.max_occ)));
            }
            if ld(&sh2.ok_returns) > ld(&sh2.wake_capacity) {
                v.push(format!(
                    "spurious: {} waits returned without time-out but notifications could wake at most {}",
                    ld(&sh2.ok_returns),
                    ld(&sh2.wake_capacity)
                ));
            }
            if ld(&sh2.bad_pred) > 0 {
                v.push("wait_while returned while its condition still held".into());
            }
            if r.deadlock.is_none() && !r.budget_exceeded && r.panics.is_empty() {
                let left = *sh2.m.lock().unwrap();
                if ld(&sh2.produced) != ld(&sh2.consumed) + left {
                    v.push(format!("permits: produced {} != consumed {} + left {}", ld(&sh2.produced), ld(&sh2.consumed), left));
                }
                if ld(&sh2.waiting) != 0 {
                    v.push(format!("waiters: {} still registered at the end", ld(&sh2.waiting)));
                }
            }
            v
        }),
        filter: vec!["sync/condvar.rs", "sync/mutex.rs", "sync/blocking.rs", "scn/condvar.rs"],
        timeout_permille: 150,
    }
}
