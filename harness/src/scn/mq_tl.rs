//! C19: may_queue::mpsc_list_v1::Queue (the removable timer-entry list), called directly (L0, det mode)
//!
//! Mirrors the timer thread: actor `t0` is the single consumer (pop / pop_if / peek / is_empty /
//! remove / handle drop, and now and then a push of its own), `t1..` are producers. Handles travel
//! from the producers to the consumer through an un-hooked pool (like `del_timer` -> `remove_list`).
//!
//! Handle discipline (`race=` in the header):
//! * `race=0`: the documented precondition of `Entry::drop` / `is_link` holds – a handle is only
//!   inspected or dropped by the consumer thread between its own operations, by a producer after the
//!   consumer has finished, or after the run;
//! * `race=1` (a minority, classified separately): producers also inspect / drop their handles while
//!   the consumer is running. In det mode every `refs` access is one serialised step, so these runs
//!   are still well defined; the torn read-modify-write of DESIGN C19 `tl_refs` is never generated.
//!
//! Queue drop (`qdrop=1`): when all producers have finished, the consumer drops the queue inside its actor
//! and then goes on using the handles it still has (remove / is_link / drop) – handles outliving the list.
//!
//! Timer-thread pattern (`tt=1` in the header, about a quarter of the scenarios): the consumer mostly does what
//! `TimeOutList::schedule_timer` does with an interval list (ops `s<b>`: `while pop_if(time <= now) {}; peek()`, and when
//! that said None: `is_empty()`, and when that said false: `peek()` – the code does `.unwrap()` on this one) and the bare
//! pair `E` = `is_empty(); peek()`, while the producers are in flight. These ops also occur in the other scenarios.
//!
//! Visibility oracles of `peek` (independent of the model; sound for every interleaving because `peek` – like `pop` and
//! `pop_if` – returns None only if `head == stub`, i.e. no entry has been swapped in that is still in the list, and otherwise
//! waits for the oldest entry to be linked; entries leave the list only through the consumer's own pop / pop_if / remove):
//! * O1 `is_empty() = false but peek() = None`: the consumer has seen the list non-empty (is_empty() returned false, or a
//!   peek() returned an entry) and has not taken anything out since (no pop / pop_if / remove of its own returned an entry;
//!   nobody else ever removes: `remove` is a consumer-only operation and only t0 calls it) – then peek() (and pop()) must
//!   return an entry;
//! * O2 `peek() = None although a completed, unconsumed, unremoved push exists`: a push that had RETURNED before the
//!   peek() call started and whose entry had not been popped / removed before that – whatever other producers are doing;
//! * O3 (exactness) `peek() = Some(v)`: v is the oldest entry, in swap order, that has not been consumed before.
//!
//! Memory oracle: while a scenario of this family runs, freed memory is quarantined (`crate::valloc`: never reused,
//! never returned to the system allocator), so a hooked access to a node after its `free` note, or a second
//! `free` of the same node, is detected from the log instead of corrupting the heap of the harness.
use super::Built;
use crate::rt::{call, ret, Actor, DetResult, Raw, Rng};
use may_queue::mpsc_list_v1::{Entry, Queue};
use std::collections::HashMap;
use std::sync::atomic::{AtomicBool, AtomicUsize, Ordering};
use std::sync::{Arc, Mutex as StdMutex};

use crate::valloc::QUARANTINE_ON as QUARANTINE;

const NONE: u64 = u64::MAX;

/// payload with a drop counter
struct Item {
    v: u64,
    drops: Arc<Vec<AtomicUsize>>,
}
impl Drop for Item {
    fn drop(&mut self) {
        self.drops[self.v as usize].fetch_add(1, Ordering::SeqCst);
    }
}

#[derive(Clone, Copy, Debug)]
enum COp {
    Pop,
    PopIf(u64),
    Peek,
    IsEmpty,
    Remove,
    DropH,
    IsLink,
    Push(u64),
    QDrop,
    EmptyPeek,  // `is_empty(); peek()`
    Sched(u64), // the `schedule_timer` pattern with now = the bound
}

#[derive(Clone, Copy, Debug, PartialEq)]
enum After {
    Give,   // hand the handle to the consumer
    Keep,   // keep it; inspect + drop it at the end if the consumer has finished, else after the run
    Racy,   // race=1 only: is_link and drop right away
    RacyLk, // race=1 only: is_link right away, then give
    Park,   // race=1 only: what `Park::remove_timeout_handle` does, after this producer's pushes:
            // `if h.is_link() { give it to the consumer (del_timer) } else { drop it here }`
}

/// what the consumer did, in its own program order (the oracle's view of the history)
#[derive(Clone, Debug)]
enum Did {
    Popped(u64),
    PopNone { completed_unconsumed: bool },
    Removed(u64),
    RemoveNone { v: u64, consumed_before: bool },
    Peeked { res: Option<u64>, completed_unconsumed: bool },
    Empty { res: bool, completed_unconsumed: bool },
}

struct Shared {
    q: StdMutex<Option<Box<Queue<Item>>>>,
    qdropped: AtomicBool,
    producers_left: AtomicUsize,
    pool: StdMutex<Vec<(u64, Entry<Item>)>>,
    late: StdMutex<Vec<(u64, Entry<Item>)>>,
    completed: StdMutex<Vec<u64>>, // values whose push has returned
    consumed: StdMutex<Vec<u64>>,  // values returned by pop / pop_if / remove
    did: StdMutex<Vec<Did>>,
    heads: StdMutex<HashMap<u64, bool>>, // value -> is_head reported by its push
    consumer_done: AtomicBool,
    drops: Arc<Vec<AtomicUsize>>,
}
// the raw pointers inside `Entry` are only used under the discipline described above
unsafe impl Sync for Shared {}
unsafe impl Send for Shared {}

impl Shared {
    fn q(&self) -> &Queue<Item> {
        // whoever runs first creates the queue inside its actor, so the stub node is announced in the trace
        // (`Queue::new` contains no schedule point, so the lock is never held across one)
        let mut g = self.q.lock().unwrap();
        assert!(!self.qdropped.load(Ordering::SeqCst), "scenario bug: queue used after its drop");
        let b = g.get_or_insert_with(|| Box::new(Queue::new()));
        let p: *const Queue<Item> = &**b;
        // valid until `qdrop`, which only the consumer performs, after every producer has finished
        unsafe { &*p }
    }
    fn completed_unconsumed(&self) -> bool {
        let c = self.completed.lock().unwrap();
        let d = self.consumed.lock().unwrap();
        c.iter().any(|v| !d.contains(v))
    }
}

fn do_push(sh: &Shared, v: u64) -> Entry<Item> {
    call("tl.push", v, 0);
    let (h, is_head) = sh.q().push(Item { v, drops: sh.drops.clone() });
    sh.heads.lock().unwrap().insert(v, is_head);
    sh.completed.lock().unwrap().push(v);
    ret("tl.push", is_head as u64);
    h
}

fn do_is_link(h: &Entry<Item>, v: u64) -> bool {
    call("tl.is_link", v, 0);
    let r = h.is_link();
    ret("tl.is_link", r as u64);
    r
}

fn do_drop(h: Entry<Item>, v: u64) {
    call("tl.drop", v, 0);
    drop(h);
    ret("tl.drop", 0);
}

/// consumer: `peek()`; what the harness knows at the call (a completed push whose entry nobody has taken out) is recorded with the result
fn do_peek(sh: &Shared, q: &Queue<Item>) -> Option<u64> {
    let cu = sh.completed_unconsumed();
    call("tl.peek", 0, 0);
    let r = unsafe { q.peek() }.map(|it| it.v);
    ret("tl.peek", r.unwrap_or(NONE));
    sh.did.lock().unwrap().push(Did::Peeked { res: r, completed_unconsumed: cu });
    r
}

fn do_is_empty(sh: &Shared, q: &Queue<Item>) -> bool {
    let cu = sh.completed_unconsumed();
    call("tl.is_empty", 0, 0);
    let r = q.is_empty();
    ret("tl.is_empty", r as u64);
    sh.did.lock().unwrap().push(Did::Empty { res: r, completed_unconsumed: cu });
    r
}

fn do_pop_if(sh: &Shared, q: &Queue<Item>, b: u64) -> Option<u64> {
    call("tl.pop_if", b, 0);
    let r = q.pop_if(&|it: &Item| it.v < b).map(|it| it.v);
    ret("tl.pop_if", r.unwrap_or(NONE));
    if let Some(v) = r {
        sh.consumed.lock().unwrap().push(v);
        sh.did.lock().unwrap().push(Did::Popped(v));
    }
    r
}

pub fn build(rng: &mut Rng, tier: u32) -> Built {
    let big = tier > 0;
    let np = 1 + rng.below(3) as usize; // producers
    let race = rng.chance(200);
    let max_push = if big { 5 } else { 3 };
    let mut next_v = 1u64;
    let mut plans: Vec<Vec<(u64, After)>> = vec![];
    for _ in 0..np {
        let k = 1 + rng.below(max_push) as usize;
        let mut pl = vec![];
        for _ in 0..k {
            let a = if race && rng.chance(600) {
                match rng.below(4) { 0 => After::Racy, 1 => After::RacyLk, _ => After::Park }
            } else if rng.chance(200) {
                After::Keep
            } else {
                After::Give
            };
            pl.push((next_v, a));
            next_v += 1;
        }
        plans.push(pl);
    }
    let ncop = (if big { 6 } else { 4 }) + rng.below(if big { 10 } else { 6 }) as usize;
    let tt = rng.chance(250); // the timer-thread pattern dominates the consumer's program
    let mut cops = vec![];
    for _ in 0..ncop {
        let r = rng.below(100);
        cops.push(if tt {
            if r < 40 {
                COp::Sched(1 + rng.below(next_v + 2))
            } else if r < 60 {
                COp::EmptyPeek
            } else if r < 72 {
                COp::Pop
            } else if r < 80 {
                COp::Peek
            } else if r < 93 {
                COp::Remove
            } else {
                let v = next_v;
                next_v += 1;
                COp::Push(v)
            }
        } else if r < 25 {
            COp::Pop
        } else if r < 39 {
            COp::PopIf(1 + rng.below(next_v + 2))
        } else if r < 47 {
            COp::Peek
        } else if r < 51 {
            COp::IsEmpty
        } else if r < 57 {
            COp::EmptyPeek
        } else if r < 62 {
            COp::Sched(1 + rng.below(next_v + 2))
        } else if r < 83 {
            COp::Remove
        } else if r < 88 {
            COp::DropH
        } else if r < 92 {
            COp::IsLink
        } else {
            let v = next_v;
            next_v += 1;
            COp::Push(v)
        });
    }
    let qdrop = rng.chance(400);
    if qdrop {
        cops.push(COp::QDrop);
        for _ in 0..(1 + rng.below(4)) {
            let r = rng.below(100);
            cops.push(if r < 50 { COp::Remove } else if r < 75 { COp::DropH } else { COp::IsLink });
        }
    }
    let nvals = next_v as usize;
    let drops: Arc<Vec<AtomicUsize>> = Arc::new((0..nvals).map(|_| AtomicUsize::new(0)).collect());
    let sh = Arc::new(Shared {
        q: StdMutex::new(None),
        qdropped: AtomicBool::new(false),
        producers_left: AtomicUsize::new(np),
        pool: StdMutex::new(vec![]),
        late: StdMutex::new(vec![]),
        completed: StdMutex::new(vec![]),
        consumed: StdMutex::new(vec![]),
        did: StdMutex::new(vec![]),
        heads: StdMutex::new(HashMap::new()),
        consumer_done: AtomicBool::new(false),
        drops: drops.clone(),
    });

    let mut actors: Vec<Actor> = vec![];
    let mut names = vec!["t0".to_string()];
    let mut pushers: Vec<Vec<u64>> = vec![vec![]]; // per actor: the values it pushes, in order
    let mut desc = vec![cops
        .iter()
        .map(|o| match o {
            COp::Pop => "o".to_string(),
            COp::PopIf(b) => format!("i{b}"),
            COp::Peek => "k".into(),
            COp::IsEmpty => "e".into(),
            COp::Remove => "r".into(),
            COp::DropH => "d".into(),
            COp::IsLink => "l".into(),
            COp::Push(v) => format!("p{v}"),
            COp::QDrop => "Q".into(),
            COp::EmptyPeek => "E".into(),
            COp::Sched(b) => format!("s{b}"),
        })
        .collect::<Vec<_>>()
        .join("")];
    for o in &cops {
        if let COp::Push(v) = o {
            pushers[0].push(*v);
        }
    }

    // ---- consumer
    {
        let sh = sh.clone();
        let mut crng = Rng::new(rng.next());
        actors.push(Box::new(move || {
            let q = sh.q(); // not used any more once `qdropped` is set
            let take = |crng: &mut Rng| -> Option<(u64, Entry<Item>)> {
                let mut p = sh.pool.lock().unwrap();
                if p.is_empty() {
                    None
                } else {
                    let i = crng.below(p.len() as u64) as usize;
                    Some(p.remove(i))
                }
            };
            for op in cops {
                if sh.qdropped.load(Ordering::SeqCst) && !matches!(op, COp::Remove | COp::DropH | COp::IsLink) {
                    continue;
                }
                match op {
                    COp::QDrop => {
                        // ownership: wait (polling with a hooked operation, so the producers get scheduled) until
                        // nobody else uses the queue any more
                        let mut polls = 0;
                        while sh.producers_left.load(Ordering::SeqCst) > 0 && polls < 400 {
                            call("tl.is_empty", 0, 0);
                            let r = q.is_empty();
                            ret("tl.is_empty", r as u64);
                            polls += 1;
                        }
                        if sh.producers_left.load(Ordering::SeqCst) == 0 {
                            let b = sh.q.lock().unwrap().take();
                            sh.qdropped.store(true, Ordering::SeqCst);
                            call("tl.qdrop", 0, 0);
                            // payloads still in the list are dropped by the queue: they count as consumed
                            drop(b);
                            ret("tl.qdrop", 0);
                        }
                    }
                    COp::Pop => {
                        let cu = sh.completed_unconsumed();
                        call("tl.pop", 0, 0);
                        let r = q.pop().map(|it| it.v);
                        ret("tl.pop", r.unwrap_or(NONE));
                        match r {
                            Some(v) => {
                                sh.consumed.lock().unwrap().push(v);
                                sh.did.lock().unwrap().push(Did::Popped(v));
                            }
                            None => sh.did.lock().unwrap().push(Did::PopNone { completed_unconsumed: cu }),
                        }
                    }
                    COp::PopIf(b) => {
                        do_pop_if(&sh, q, b);
                    }
                    COp::Peek => {
                        do_peek(&sh, q);
                    }
                    COp::IsEmpty => {
                        do_is_empty(&sh, q);
                    }
                    COp::EmptyPeek => {
                        do_is_empty(&sh, q);
                        do_peek(&sh, q);
                    }
                    COp::Sched(b) => {
                        // `IntervalEntry::pop_timeout`: fire everything that is due, then look at the new head …
                        while do_pop_if(&sh, q, b).is_some() {}
                        if do_peek(&sh, q).is_none() {
                            // … `schedule_timer`, list seen empty: "recheck if the interval list is empty, other thread may
                            // append data to it"; if it is not, the code does `peek().unwrap()` (the oracle demands Some)
                            if !do_is_empty(&sh, q) {
                                do_peek(&sh, q);
                            }
                        }
                    }
                    COp::Remove => {
                        if let Some((v, h)) = take(&mut crng) {
                            let before = sh.consumed.lock().unwrap().contains(&v);
                            call("tl.remove", v, 0);
                            let r = h.remove().map(|it| it.v);
                            ret("tl.remove", r.unwrap_or(NONE));
                            match r {
                                Some(x) => {
                                    sh.consumed.lock().unwrap().push(x);
                                    sh.did.lock().unwrap().push(Did::Removed(x));
                                    if x != v {
                                        sh.did.lock().unwrap().push(Did::RemoveNone { v: u64::MAX - 1, consumed_before: true });
                                    }
                                }
                                None => sh.did.lock().unwrap().push(Did::RemoveNone { v, consumed_before: before }),
                            }
                        }
                    }
                    COp::DropH => {
                        if let Some((v, h)) = take(&mut crng) {
                            do_drop(h, v);
                        }
                    }
                    COp::IsLink => {
                        if let Some((v, h)) = take(&mut crng) {
                            do_is_link(&h, v);
                            sh.pool.lock().unwrap().push((v, h));
                        }
                    }
                    COp::Push(v) => {
                        let h = do_push(&sh, v);
                        sh.pool.lock().unwrap().push((v, h));
                    }
                }
            }
            sh.consumer_done.store(true, Ordering::SeqCst);
        }));
    }
    // ---- producers
    for (p, plan) in plans.into_iter().enumerate() {
        names.push(format!("t{}", p + 1));
        pushers.push(plan.iter().map(|x| x.0).collect());
        desc.push(
            plan.iter()
                .map(|(v, a)| format!("p{v}{}", match a { After::Give => "g", After::Keep => "k", After::Racy => "R", After::RacyLk => "L", After::Park => "P" }))
                .collect::<Vec<_>>()
                .join(""),
        );
        let sh = sh.clone();
        actors.push(Box::new(move || {
            let mut kept = vec![];
            let mut parked = vec![];
            for (v, a) in plan {
                let h = do_push(&sh, v);
                match a {
                    After::Give => sh.pool.lock().unwrap().push((v, h)),
                    After::Keep => kept.push((v, h)),
                    After::Racy => {
                        do_is_link(&h, v);
                        do_drop(h, v);
                    }
                    After::RacyLk => {
                        do_is_link(&h, v);
                        sh.pool.lock().unwrap().push((v, h));
                    }
                    After::Park => parked.push((v, h)),
                }
            }
            for (v, h) in parked {
                if do_is_link(&h, v) {
                    sh.pool.lock().unwrap().push((v, h));
                } else {
                    do_drop(h, v);
                }
            }
            sh.producers_left.fetch_sub(1, Ordering::SeqCst);
            for (v, h) in kept {
                if sh.consumer_done.load(Ordering::SeqCst) {
                    // nobody else touches the list any more
                    do_is_link(&h, v);
                    do_drop(h, v);
                } else {
                    sh.late.lock().unwrap().push((v, h));
                }
            }
        }));
    }

    let header = format!("family=mq_tl actors={} race={} qdrop={} tt={} ops={}", names.len(), race as u32, qdrop as u32, tt as u32, desc.join(","));
    QUARANTINE.store(true, Ordering::SeqCst);
    let sh2 = sh.clone();
    let names2 = names.clone();
    Built {
        header,
        names,
        actors,
        check: Box::new(move |r| oracle(r, sh2, &names2, &pushers, nvals)),
        filter: vec!["mpsc_list_v1.rs"],
        timeout_permille: 0,
    }
}

/// property oracles, evaluated on the finished run from the API results and the positions of the
/// linearization events in the raw log – no model involved
fn oracle(r: &DetResult, sh: Arc<Shared>, names: &[String], pushers: &[Vec<u64>], nvals: usize) -> Vec<String> {
    let mut fails = vec![];
    let complete = r.deadlock.is_none() && !r.budget_exceeded && r.panics.is_empty();
    // ---- memory: no hooked access to a node after its `free` note, no second free (freed blocks are quarantined)
    {
        let mut live: Vec<(usize, usize)> = vec![];
        let mut dead: Vec<(usize, usize, usize)> = vec![]; // lo, hi, position of the free
        let mut uaf = 0;
        for (i, e) in r.log.iter().enumerate() {
            if e.kind == "note" {
                let w: Vec<&str> = e.op.split_whitespace().collect();
                if w.len() >= 3 && w[1] == "TlNode" {
                    let p: usize = w[2].parse().unwrap_or(0);
                    if w[0] == "born" {
                        let sz: usize = w.get(3).and_then(|x| x.parse().ok()).unwrap_or(1);
                        live.push((p, p + sz));
                    } else if w[0] == "free" {
                        if let Some(k) = live.iter().position(|(lo, _)| *lo == p) {
                            let (lo, hi) = live.remove(k);
                            dead.push((lo, hi, i));
                        } else if dead.iter().any(|(lo, _, _)| *lo == p) {
                            fails.push(format!("memory: double free of a list node by {} (log position {i})", e.actor));
                        }
                    }
                }
            } else if e.kind == "a" {
                if let Some((_, _, at)) = dead.iter().find(|(lo, hi, _)| e.addr >= *lo && e.addr < *hi) {
                    if uaf == 0 {
                        fails.push(format!(
                            "memory: use after free: {} performs `{}` on a field of a list node that was freed at log position {at} (now at {i})",
                            e.actor, e.op
                        ));
                    }
                    uaf += 1;
                }
            }
        }
    }
    // ---- swap order and the positions of swap / tail-load / tail-store events
    let is = |e: &Raw, line_has: &str, op: &str| e.kind == "a" && e.op == op && e.file.ends_with("mpsc_list_v1.rs") && site_is(e, line_has);
    let mut swap_pos: HashMap<u64, usize> = HashMap::new(); // value -> log position of its swap
    let mut load_pos: HashMap<u64, usize> = HashMap::new(); // value -> log position of the tail read of its push
    let mut order: Vec<u64> = vec![]; // values in swap order
    let mut nth = vec![0usize; names.len()];
    let mut cur: Vec<Option<u64>> = vec![None; names.len()];
    let mut tail_stores: Vec<usize> = vec![]; // log positions of the consumer's tail stores (= successful pops, in order)
    let mut born_after_free: HashMap<usize, usize> = HashMap::new(); // address -> position of the latest re-birth after a free
    let mut freed: HashMap<usize, usize> = HashMap::new();
    let mut aba = 0usize;
    let mut prev_addr: HashMap<u64, usize> = HashMap::new();
    for (i, e) in r.log.iter().enumerate() {
        let a = names.iter().position(|n| *n == e.actor).unwrap_or(0);
        if e.kind == "note" {
            let w: Vec<&str> = e.op.split_whitespace().collect();
            if w.len() >= 3 && w[1] == "TlNode" {
                let p: usize = w[2].parse().unwrap_or(0);
                if w[0] == "free" {
                    freed.insert(p, i);
                } else if w[0] == "born" && freed.contains_key(&p) {
                    born_after_free.insert(p, i);
                }
            }
        } else if is(e, "head:", "swap") {
            if let Some(v) = pushers[a].get(nth[a]) {
                nth[a] += 1;
                cur[a] = Some(*v);
                swap_pos.insert(*v, i);
                prev_addr.insert(*v, e.res as usize);
                order.push(*v);
            }
        } else if is(e, "static tail", "load") {
            if let Some(v) = cur[a] {
                load_pos.insert(v, i);
            }
        } else if is(e, "static tail", "store") {
            tail_stores.push(i);
        }
    }
    let idx: HashMap<u64, usize> = order.iter().enumerate().map(|(i, v)| (*v, i)).collect();
    let did = sh.did.lock().unwrap().clone();
    // ---- pop order = swap order among the non-removed; a removed entry was not overtaken by a pop
    let mut last_pop: Option<usize> = None;
    let mut pops: Vec<u64> = vec![];
    let mut gone: Vec<u64> = vec![];
    // O1: what the consumer itself has observed: the list is not empty, and it has not taken anything out since
    // (entries leave the list only through the consumer's own pop / pop_if / remove)
    let mut seen_nonempty: Option<String> = None;
    for d in &did {
        match d {
            Did::Popped(v) => {
                match idx.get(v) {
                    None => fails.push(format!("order: pop returned {v}, which was never pushed")),
                    Some(i) => {
                        if let Some(l) = last_pop {
                            if *i <= l {
                                fails.push(format!("order: pop returned {v} (swap #{i}) after swap #{l}"));
                            }
                        }
                        last_pop = Some(*i);
                    }
                }
                if gone.contains(v) {
                    fails.push(format!("once: {v} returned twice"));
                }
                pops.push(*v);
                gone.push(*v);
                seen_nonempty = None;
            }
            Did::Removed(v) => {
                if gone.contains(v) {
                    fails.push(format!("once: remove returned {v}, which had already been consumed"));
                }
                if let (Some(i), Some(l)) = (idx.get(v), last_pop) {
                    if *i < l {
                        fails.push(format!("order: {v} (swap #{i}) was still a member when pop took swap #{l}"));
                    }
                }
                gone.push(*v);
                seen_nonempty = None;
            }
            Did::RemoveNone { v, consumed_before } => {
                if *v == u64::MAX - 1 {
                    fails.push("remove: returned the value of another entry".into());
                }
                let _ = consumed_before; // None is always allowed (last entry); Some after consumption is caught above
            }
            Did::PopNone { completed_unconsumed } => {
                if *completed_unconsumed {
                    fails.push("visibility: pop returned None although a completed push was unconsumed".into());
                }
                if let Some(w) = &seen_nonempty {
                    fails.push(format!("visibility: {w} but pop() = None (the consumer took nothing out in between)"));
                }
            }
            Did::Peeked { res: Some(v), .. } => {
                if gone.contains(v) {
                    fails.push(format!("peek: saw {v}, which had already been consumed"));
                }
                if let (Some(i), Some(l)) = (idx.get(v), last_pop) {
                    if *i < l {
                        fails.push(format!("peek: saw {v} (swap #{i}) after swap #{l} was popped"));
                    }
                }
                // O3: the entry peek shows is the oldest one (swap order) that has not been consumed
                if let Some(w) = order.iter().find(|x| !gone.contains(x)) {
                    if w != v && idx.contains_key(v) && !gone.contains(v) {
                        fails.push(format!("peek: saw {v} (swap #{}) although {w} (swap #{}) is older and was neither popped nor removed", idx[v], idx[w]));
                    }
                }
                seen_nonempty = Some(format!("peek() = Some({v})"));
            }
            Did::Peeked { res: None, completed_unconsumed } => {
                // O1
                if let Some(w) = &seen_nonempty {
                    fails.push(format!("visibility: {w} but peek() = None (the consumer took nothing out in between, nobody else removes)"));
                }
                // O2
                if *completed_unconsumed {
                    fails.push("visibility: peek() = None although a completed, unconsumed, unremoved push exists".into());
                }
            }
            Did::Empty { res, completed_unconsumed } => {
                if *res && *completed_unconsumed {
                    fails.push("visibility: is_empty although a completed push was unconsumed".into());
                }
                if *res {
                    if let Some(w) = &seen_nonempty {
                        fails.push(format!("visibility: {w} but is_empty() = true (the consumer took nothing out in between)"));
                    }
                } else {
                    seen_nonempty = Some("is_empty() = false".into());
                }
            }
        }
    }
    // ---- remove on a consumed entry returns None: a `Removed(v)` with v consumed before is flagged above ("once")
    // ---- head report: is_head <=> at the tail read the swap-time predecessor is the stub and the entry is unpopped
    // the pops inside `Queue::drop` come after every explicit pop
    let qd = sh.qdropped.load(Ordering::SeqCst);
    if qd && tail_stores.len() >= pops.len() {
        tail_stores.truncate(pops.len());
    }
    if pops.len() == tail_stores.len() || !complete {
        let pop_pos: HashMap<u64, usize> = pops.iter().zip(tail_stores.iter()).map(|(v, p)| (*v, *p)).collect();
        let heads = sh.heads.lock().unwrap();
        for (k, v) in order.iter().enumerate() {
            let (Some(rep), Some(lp)) = (heads.get(v), load_pos.get(v)) else { continue };
            let pred_is_stub = k == 0 || pop_pos.get(&order[k - 1]).map(|p| p < lp).unwrap_or(false);
            let self_popped = pop_pos.get(v).map(|p| p < lp).unwrap_or(false);
            let expect = pred_is_stub && !self_popped;
            if *rep != expect {
                // address reuse: the freed predecessor's address now belongs to the node that is the stub
                let reused = prev_addr.get(v).and_then(|a| born_after_free.get(a)).map(|b| b < lp).unwrap_or(false);
                if *rep && self_popped && reused {
                    aba += 1;
                } else {
                    fails.push(format!("is_head: push of {v} reported {rep}, expected {expect} (pred_is_stub={pred_is_stub} self_popped={self_popped})"));
                }
            }
            // the window had no consumer move: exactly "the push found the list empty"
            let sp = swap_pos[v];
            if !tail_stores.iter().any(|p| *p > sp && *p < *lp) {
                let empty_at_swap = k == 0 || pop_pos.get(&order[k - 1]).map(|p| *p < sp).unwrap_or(false);
                if *rep != empty_at_swap {
                    fails.push(format!("is_head: push of {v} reported {rep} but the list was {} at its swap", if empty_at_swap { "empty" } else { "not empty" }));
                }
            }
        }
    } else {
        fails.push(format!("bookkeeping: {} successful pops but {} tail stores", pops.len(), tail_stores.len()));
    }
    let _ = aba;
    // ---- final accounting: drain, drop everything, every value consumed once and dropped once
    if complete {
        let qb = sh.q.lock().unwrap().take();
        if let Some(q) = qb.as_deref() {
            while let Some(it) = q.pop() {
                let v = it.v;
                if gone.contains(&v) {
                    fails.push(format!("once: drain returned {v}, which had already been consumed"));
                }
                if let (Some(i), Some(l)) = (idx.get(&v), last_pop) {
                    if *i <= l {
                        fails.push(format!("order: drain returned {v} (swap #{i}) after swap #{l}"));
                    }
                }
                last_pop = idx.get(&v).copied();
                gone.push(v);
            }
        }
        let qdropped = sh.qdropped.load(Ordering::SeqCst);
        for v in &order {
            let c = gone.iter().filter(|x| *x == v).count();
            // entries still in the list when the queue was dropped in the run were dropped by it (checked by the drop counters)
            if c > 1 || (c == 0 && !qdropped) {
                fails.push(format!("once: {v} consumed {c} times"));
            }
        }
        // handles first, then the queue (on the pinned tree the queue frees its stub whatever the handles say)
        sh.pool.lock().unwrap().clear();
        sh.late.lock().unwrap().clear();
        drop(qb);
        match Arc::try_unwrap(sh) {
            Ok(s) => {
                let drops = s.drops.clone();
                drop(s);
                for v in &order {
                    let c = drops[*v as usize].load(Ordering::SeqCst);
                    if c != 1 {
                        fails.push(format!("drop: payload {v} dropped {c} times"));
                    }
                }
                let _ = nvals;
            }
            Err(_) => fails.push("bookkeeping: the scenario state is still shared at the end".into()),
        }
    }
    QUARANTINE.store(false, Ordering::SeqCst);
    fails
}

/// does the construction site of the event lie on the source line that declares `what`?
fn site_is(e: &Raw, what: &str) -> bool {
    use std::sync::Mutex;
    static SRC: Mutex<Option<HashMap<String, Vec<String>>>> = Mutex::new(None);
    let mut g = SRC.lock().unwrap();
    let m = g.get_or_insert_with(HashMap::new);
    let lines = m.entry(e.file.to_string()).or_insert_with(|| {
        let repo = std::env::var("VERIF_REPO").unwrap_or_else(|_| "/repo".into());
        let cands = if e.file.starts_with('/') { vec![e.file.to_string()] } else { vec![format!("{repo}/{}", e.file), format!("{repo}/may_queue/{}", e.file)] };
        for c in cands {
            if let Ok(s) = std::fs::read_to_string(&c) {
                return s.lines().map(|l| l.to_string()).collect();
            }
        }
        vec![]
    });
    lines.get(e.line as usize - 1).map(|l| l.contains(what)).unwrap_or(false)
}
