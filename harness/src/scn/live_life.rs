//! C01 (life-cycle half): trees of spawns on the real runtime. Coroutine `c<i>` is coroutine `i` of the model.
//!
//! Every body increments its execution counter, sets / clears a per-coroutine "running" flag around every segment
//! between two suspensions, and runs a small seeded program: yield, spawn a child (plain, with a custom stack size,
//! with `Builder::id`, or `spawn_local`), park until one of its children unparks it, unpark its parent, sleep 1–2 ms
//! (resumed by the timer thread on the timer thread). Spawns come from `main`, from a scenario thread and from
//! coroutines. Markers: `call spawn i` right before coroutine `i` is created, `call body.end i` as the last action
//! of body `i`.
//! Oracles: every body ran exactly once; the running flag was never found set when a segment started (never two
//! threads in one body); every join returns the value of that body; watchdog for completion.
use super::live_join::{track_gone, wait_gone};
use super::{spawn_actor_thread, LiveBuilt};
use crate::rt::{call, Rng};
use may::coroutine::{self, Coroutine, JoinHandle};
use std::sync::atomic::{AtomicBool, AtomicUsize, Ordering};
use std::sync::{Arc, Mutex};
use std::time::Duration;

#[derive(Clone, Copy, PartialEq, Debug)]
enum Kind {
    Plain,
    Stack,
    Id(usize),
    Local,
}

#[derive(Clone, Debug)]
enum Step {
    Yield,
    Spawn(usize),
    /// park until a child unparks this coroutine (the child is spawned earlier in the same program)
    Park,
    UnparkParent,
    Sleep(u64),
    Work(u64),
}

#[derive(Clone, Debug)]
struct Plan {
    kind: Vec<Kind>,
    prog: Vec<Vec<Step>>,
}

struct Shared {
    plan: Plan,
    ran: Vec<AtomicUsize>,
    running: Vec<AtomicBool>,
    handles: Mutex<Vec<(usize, JoinHandle<usize>)>>,
    spawned: AtomicUsize,
    fails: Mutex<Vec<String>>,
    gone: Arc<Mutex<Vec<Arc<AtomicBool>>>>,
}

fn seg_start(sh: &Shared, i: usize) {
    if sh.running[i].swap(true, Ordering::SeqCst) {
        sh.fails.lock().unwrap_or_else(|e| e.into_inner()).push(format!("body of c{i} is executed by two threads at once"));
    }
}
fn seg_end(sh: &Shared, i: usize) {
    sh.running[i].store(false, Ordering::SeqCst);
}

fn spawn_co(sh: &Arc<Shared>, i: usize, parent: Option<Coroutine>) {
    let sh2 = sh.clone();
    let body = move || -> usize {
        track_gone(&sh2.gone);
        sh2.ran[i].fetch_add(1, Ordering::SeqCst);
        seg_start(&sh2, i);
        let me = coroutine::current();
        let prog = sh2.plan.prog[i].clone();
        for st in prog {
            match st {
                Step::Yield => {
                    seg_end(&sh2, i);
                    coroutine::yield_now();
                    seg_start(&sh2, i);
                }
                Step::Spawn(j) => spawn_co(&sh2, j, Some(me.clone())),
                Step::Park => {
                    seg_end(&sh2, i);
                    coroutine::park();
                    seg_start(&sh2, i);
                }
                Step::UnparkParent => {
                    if let Some(p) = &parent {
                        p.unpark();
                    }
                }
                Step::Sleep(ms) => {
                    seg_end(&sh2, i);
                    coroutine::sleep(Duration::from_millis(ms));
                    seg_start(&sh2, i);
                }
                Step::Work(us) => std::thread::sleep(Duration::from_micros(us)),
            }
        }
        seg_end(&sh2, i);
        call("body.end", i as u64, 0);
        i * 7 + 1
    };
    call("spawn", i as u64, 0);
    let b = coroutine::Builder::new().name(format!("c{i}"));
    let h = unsafe {
        match sh.plan.kind[i] {
            Kind::Plain => b.spawn(body),
            Kind::Stack => b.stack_size(0x3000).spawn(body),
            Kind::Id(k) => b.id(k).spawn(body),
            Kind::Local => b.spawn_local(body),
        }
        .unwrap()
    };
    sh.handles.lock().unwrap_or_else(|e| e.into_inner()).push((i, h));
    sh.spawned.fetch_add(1, Ordering::SeqCst);
}

fn make_plan(rng: &mut Rng, tier: u32) -> (Plan, Vec<usize>, Vec<usize>) {
    let n = 2 + rng.below(if tier > 0 { 10 } else { 5 }) as usize;
    let mut kind = vec![];
    for _ in 0..n {
        kind.push(match rng.below(10) {
            0..=5 => Kind::Plain,
            6 => Kind::Stack,
            7 => Kind::Id(rng.below(5) as usize),
            _ => Kind::Local,
        });
    }
    // the parent of coroutine i is a coroutine p < i, or main / the scenario thread
    let mut children: Vec<Vec<usize>> = vec![vec![]; n];
    let mut from_main = vec![];
    let mut from_thread = vec![];
    for i in 0..n {
        if i == 0 || rng.chance(350) {
            if rng.chance(300) {
                from_thread.push(i)
            } else {
                from_main.push(i)
            }
        } else {
            let p = rng.below(i as u64) as usize;
            children[p].push(i);
        }
    }
    let mut prog: Vec<Vec<Step>> = vec![];
    let mut unparkers = vec![];
    for i in 0..n {
        let mut p = vec![];
        for _ in 0..rng.below(6) {
            p.push(match rng.below(8) {
                0..=4 => Step::Yield,
                5 => Step::Sleep(1 + rng.below(2)),
                _ => Step::Work([10u64, 50, 200][rng.below(3) as usize]),
            });
        }
        let mut has_parker = false;
        for &c in &children[i] {
            let at = rng.below(p.len() as u64 + 1) as usize;
            p.insert(at, Step::Spawn(c));
            // a coroutine started with spawn_local runs its first segment inside its parent: the parent cannot
            // be parked then, so such a child is never the unparker
            if !has_parker && kind[c] != Kind::Local && rng.chance(400) {
                has_parker = true;
                let at2 = at + 1 + rng.below((p.len() - at) as u64) as usize;
                p.insert(at2, Step::Park);
                unparkers.push(c);
            }
        }
        prog.push(p);
    }
    for c in unparkers {
        let at = rng.below(prog[c].len() as u64 + 1) as usize;
        prog[c].insert(at, Step::UnparkParent);
    }
    (Plan { kind, prog }, from_main, from_thread)
}

pub fn build(rng: &mut Rng, tier: u32) -> LiveBuilt {
    let (plan, from_main, from_thread) = make_plan(rng, tier);
    let n = plan.kind.len();
    let header = format!("family=life n={n}");
    LiveBuilt {
        header,
        filter: vec!["src/scheduler.rs"],
        hang_ms: 2500,
        run: Box::new(move || {
            let sh = Arc::new(Shared {
                plan,
                ran: (0..n).map(|_| AtomicUsize::new(0)).collect(),
                running: (0..n).map(|_| AtomicBool::new(false)).collect(),
                handles: Mutex::new(vec![]),
                spawned: AtomicUsize::new(0),
                fails: Mutex::new(vec![]),
                gone: Arc::new(Mutex::new(vec![])),
            });
            let sh2 = sh.clone();
            let th = if from_thread.is_empty() {
                None
            } else {
                Some(spawn_actor_thread("t1", move || {
                    for i in from_thread {
                        spawn_co(&sh2, i, None);
                    }
                }))
            };
            for i in from_main {
                spawn_co(&sh, i, None);
            }
            if let Some(t) = th {
                let _ = t.join();
            }
            // join everything that gets spawned (children appear while we wait)
            let mut joined = 0;
            while joined < n {
                let next = sh.handles.lock().unwrap_or_else(|e| e.into_inner()).pop();
                match next {
                    Some((i, h)) => {
                        match h.join() {
                            Ok(v) if v == i * 7 + 1 => {}
                            Ok(v) => sh.fails.lock().unwrap_or_else(|e| e.into_inner()).push(format!("join of c{i} returned {v}")),
                            Err(_) => sh.fails.lock().unwrap_or_else(|e| e.into_inner()).push(format!("c{i} panicked")),
                        }
                        joined += 1;
                    }
                    None => std::thread::sleep(Duration::from_micros(100)),
                }
            }
            wait_gone(&sh.gone);
            for i in 0..n {
                let r = sh.ran[i].load(Ordering::SeqCst);
                if r != 1 {
                    sh.fails.lock().unwrap_or_else(|e| e.into_inner()).push(format!("body of c{i} ran {r} times"));
                }
            }
            let r = sh.fails.lock().unwrap_or_else(|e| e.into_inner()).clone();
            r
        }),
    }
}
