//! C03: `may_queue::mpsc::Queue` called directly (layer L0, det mode): every atomic access of the queue is a
//! trace event and a schedule point.
//!
//! Actor `t0` is the consumer. It also creates the queue (so that the block births are in the trace), runs a
//! single-threaded prologue (pre-fill / pre-drain that places head and tail at a chosen offset relative to the
//! 64-slot block boundary), opens the gates of the producers `t1..`, runs its own list of
//! pop / bulk_pop / peek / len / is_empty operations (optionally a few pushes) concurrently with them, waits for
//! the producers and drops the queue with whatever is left in it. Gates are the controller's virtual park
//! tokens (`blk` events, not part of the model).
//!
//! Oracles (independent of the model): every pushed value is popped or dropped exactly once (payload drop
//! counters), nothing else comes out, per-producer FIFO order, `None`/`len`/`is_empty`/`peek` results are
//! consistent with the set of values that must / may be in the queue, and a brute-force linearizability
//! check of the contended history against a sequential FIFO on small histories.
use super::Built;
use crate::rt::{call, ret, Actor, Rng};
use may_queue::mpsc::{Queue, BLOCK_SIZE};
use std::cell::UnsafeCell;
use std::sync::atomic::{AtomicUsize, Ordering};
use std::sync::{Arc, Mutex};

/// the payload: pointer sized, so that the slot-access hooks log it as the value id. Its drops are counted in a
/// process-wide table (scenarios of one process run one after the other; `reset_drops` starts a scenario).
#[repr(transparent)]
pub(crate) struct Item {
    pub id: usize,
}
pub(crate) const MAX_ID: usize = 1 << 12;
#[allow(clippy::declare_interior_mutable_const)]
const ZERO: AtomicUsize = AtomicUsize::new(0);
pub(crate) static DROPS: [AtomicUsize; MAX_ID] = [ZERO; MAX_ID];
pub(crate) fn reset_drops() {
    for d in DROPS.iter() {
        d.store(0, Ordering::SeqCst);
    }
}
impl Drop for Item {
    fn drop(&mut self) {
        DROPS[self.id % MAX_ID].fetch_add(1, Ordering::SeqCst);
    }
}

struct Cell<Q>(UnsafeCell<Option<Q>>);
unsafe impl<Q> Sync for Cell<Q> {}
unsafe impl<Q> Send for Cell<Q> {}

#[derive(Clone, Copy, Debug, PartialEq)]
pub(crate) enum COp {
    Pop,
    Bulk,
    Peek,
    Len,
    IsEmpty,
    Push,
}

/// one completed operation of the history (logical time = position of call / return in the global order)
#[derive(Clone, Debug)]
#[allow(dead_code)]
pub(crate) struct HOp {
    pub actor: usize,
    pub kind: HKind,
    pub call: usize,
    pub ret: usize,
}
#[derive(Clone, Debug, PartialEq)]
pub(crate) enum HKind {
    Push(usize),
    Pop(Option<usize>),
    Bulk(Vec<usize>),
    Peek(Option<usize>),
    Len(usize),
}

/// memory-safety oracle on the raw event log (independent of the model): every hooked operation on a block
/// field must hit a block that is currently allocated – an access to the address range of a freed block is a
/// use after free, a second `free` of the same block a double free, a block alive at the end a leak
pub(crate) fn block_oracle(log: &[crate::rt::Raw], kind: &str, dropped: bool) -> Vec<String> {
    let mut live: Vec<(usize, usize)> = vec![];
    let mut freed: Vec<(usize, usize)> = vec![];
    let mut out = vec![];
    for (n, r) in log.iter().enumerate() {
        if r.kind == "note" {
            let w: Vec<&str> = r.op.split_whitespace().collect();
            if w.len() >= 3 && w[1] == kind {
                let p: usize = w[2].parse().unwrap_or(0);
                if w[0] == "born" {
                    let sz: usize = w.get(3).and_then(|x| x.parse().ok()).unwrap_or(0);
                    freed.retain(|(lo, hi)| *hi <= p || *lo >= p + sz);
                    live.push((p, p + sz));
                } else if w[0] == "free" {
                    match live.iter().position(|(lo, _)| *lo == p) {
                        Some(i) => freed.push(live.remove(i)),
                        None => out.push(format!("event {n}: {} frees a block that is not allocated (double free)", r.actor)),
                    }
                }
            }
        } else if r.kind == "a" {
            if freed.iter().any(|(lo, hi)| r.addr >= *lo && r.addr < *hi) && !live.iter().any(|(lo, hi)| r.addr >= *lo && r.addr < *hi) {
                out.push(format!("event {n}: {} performs {} on a field of a freed block (use after free)", r.actor, r.op));
            }
        }
    }
    if dropped && !live.is_empty() {
        out.push(format!("{} block(s) still allocated after the queue was dropped (leak)", live.len()));
    }
    out.truncate(3);
    out
}

pub(crate) fn park_gate(addr: usize) {
    if let Some(h) = may::verif::hooks() {
        (h.park)(addr, None);
    }
}
pub(crate) fn open_gate(addr: usize) {
    if let Some(h) = may::verif::hooks() {
        (h.unpark)(addr);
    }
}

/// brute-force linearizability check against a sequential FIFO (Wing & Gong style search with memoisation
/// on (set of linearized operations, queue contents)); `init` = queue contents before the history starts.
pub(crate) fn linearizable(init: &[usize], ops: &[HOp]) -> bool {
    use std::collections::HashSet;
    let n = ops.len();
    if n > 22 {
        return true; // oracle only used on small histories
    }
    fn go(
        done: u32,
        q: &mut Vec<usize>,
        ops: &[HOp],
        seen: &mut HashSet<(u32, Vec<usize>)>,
    ) -> bool {
        let n = ops.len();
        if done.count_ones() as usize == n {
            return true;
        }
        if !seen.insert((done, q.clone())) {
            return false;
        }
        // an operation may be linearized next if no other pending operation returned before it was called
        let min_ret = (0..n).filter(|i| done >> i & 1 == 0).map(|i| ops[i].ret).min().unwrap();
        for i in 0..n {
            if done >> i & 1 == 1 || ops[i].call > min_ret {
                continue;
            }
            let saved = q.clone();
            let ok = match &ops[i].kind {
                HKind::Push(v) => {
                    q.push(*v);
                    true
                }
                HKind::Pop(None) => q.is_empty(),
                HKind::Pop(Some(v)) => {
                    if q.first() == Some(v) {
                        q.remove(0);
                        true
                    } else {
                        false
                    }
                }
                HKind::Bulk(vs) => {
                    // a bulk pop is a sequence of pops; as a single atomic operation it takes a prefix
                    // (an empty result requires an empty queue)
                    if vs.is_empty() {
                        q.is_empty()
                    } else if q.len() >= vs.len() && q[..vs.len()] == vs[..] {
                        q.drain(..vs.len());
                        true
                    } else {
                        false
                    }
                }
                HKind::Peek(None) => q.is_empty(),
                HKind::Peek(Some(v)) => q.first() == Some(v),
                HKind::Len(l) => q.len() == *l,
            };
            if ok && go(done | 1 << i, q, ops, seen) {
                return true;
            }
            *q = saved;
        }
        false
    }
    let mut q = init.to_vec();
    go(0, &mut q, ops, &mut HashSet::new())
}

pub fn build(rng: &mut Rng, tier: u32) -> Built {
    let np = 1 + rng.below(if tier > 0 { 4 } else { 3 }) as usize; // producers
    let b = BLOCK_SIZE;
    // prologue: push `fill` values, take `drain` of them out again (single threaded, by t0)
    let (fill, drain) = match rng.below(8) {
        0 => (0, 0),
        1 => (rng.below(4) as usize, 0),
        _ => {
            // place the next push at offset B-3 .. B+1 (sometimes 2B-3 .. 2B+1) and the head at or shortly before it
            let laps = if rng.chance(if tier > 0 { 300 } else { 120 }) { 2 } else { 1 };
            let f = laps * b - 3 + rng.below(5) as usize;
            let left = [0, 0, 1, 2, 3, f.min(5)][rng.below(6) as usize];
            (f, f - left.min(f))
        }
    };
    let drain_bulk = rng.chance(700);
    let max_ops = if tier > 0 { 6 } else { 4 };
    reset_drops();
    let cell: Arc<Cell<Queue<Item>>> = Arc::new(Cell(UnsafeCell::new(None)));
    let hist: Arc<Mutex<Vec<HOp>>> = Arc::new(Mutex::new(vec![]));
    let clock = Arc::new(AtomicUsize::new(0));
    let init_q: Arc<Mutex<Vec<usize>>> = Arc::new(Mutex::new(vec![]));
    let pushed: Arc<Mutex<Vec<usize>>> = Arc::new(Mutex::new(vec![]));
    let popped: Arc<Mutex<Vec<usize>>> = Arc::new(Mutex::new(vec![]));
    let oracle_msgs: Arc<Mutex<Vec<String>>> = Arc::new(Mutex::new(vec![]));

    // value ids: actor * 256 + sequence number (actor 0 = consumer's own pushes incl. the prologue)
    let mut names = vec!["t0".to_string()];
    let mut actors: Vec<Actor> = vec![];
    let mut desc = vec![];

    // consumer op list
    let ncops = 1 + rng.below(max_ops + 2) as usize;
    let cops: Vec<COp> = (0..ncops)
        .map(|_| match rng.below(20) {
            0..=7 => COp::Pop,
            8..=11 => COp::Bulk,
            12..=13 => COp::Peek,
            14..=15 => COp::Len,
            16..=17 => COp::IsEmpty,
            _ => COp::Push,
        })
        .collect();
    desc.push(
        cops.iter()
            .map(|o| match o {
                COp::Pop => 'o',
                COp::Bulk => 'b',
                COp::Peek => 'k',
                COp::Len => 'l',
                COp::IsEmpty => 'e',
                COp::Push => 'p',
            })
            .collect::<String>(),
    );
    let pcounts: Vec<usize> = (0..np).map(|_| 1 + rng.below(max_ops) as usize).collect();
    for c in &pcounts {
        desc.push(format!("{c}"));
    }
    let gates: Vec<usize> = (0..np).map(|i| 0x1000 + i * 16).collect();
    let dones: Vec<usize> = (0..np).map(|i| 0x2000 + i * 16).collect();

    {
        let (cell, hist, clock, init_q, pushed, popped, msgs) = (
            cell.clone(),
            hist.clone(),
            clock.clone(),
            init_q.clone(),
            pushed.clone(),
            popped.clone(),
            oracle_msgs.clone(),
        );
        let (gates, dones) = (gates.clone(), dones.clone());
        actors.push(Box::new(move || {
            call("mq.new", 0, 0);
            unsafe { *cell.0.get() = Some(Queue::new()) };
            ret("mq.new", 0);
            let q: &Queue<Item> = unsafe { (*cell.0.get()).as_ref().unwrap() };
            let mut seq = 0usize;
            let mut mine = |pushed: &Mutex<Vec<usize>>| {
                let id = seq;
                seq += 1;
                pushed.lock().unwrap().push(id);
                id
            };
            // ---- prologue (single threaded)
            let mut content: Vec<usize> = vec![];
            for _ in 0..fill {
                let id = mine(&pushed);
                call("mq.push", id as u64, 0);
                q.push(Item { id });
                ret("mq.push", 0);
                content.push(id);
            }
            let keep = fill - drain;
            let mut head = 0usize;
            while content.len() > keep {
                let chunk = content.len().min(b - head % b);
                if drain_bulk && content.len() - chunk >= keep {
                    // a bulk pop takes what is there up to the end of the head block
                    call("mq.bulk_pop", 0, 0);
                    let v = q.bulk_pop();
                    for (i, it) in v.iter().enumerate() {
                        call("mq.bulk.item", i as u64, it.id as u64);
                    }
                    ret("mq.bulk_pop", v.len() as u64);
                    if v.len() != chunk {
                        msgs.lock().unwrap().push(format!("prologue: bulk_pop returned {} values, expected {}", v.len(), chunk));
                    }
                    if v.is_empty() {
                        break;
                    }
                    for it in v.iter() {
                        let e = if content.is_empty() { usize::MAX } else { content.remove(0) };
                        if e != it.id {
                            msgs.lock().unwrap().push(format!("prologue: bulk_pop returned {} expected {}", it.id, e));
                        }
                        popped.lock().unwrap().push(it.id);
                    }
                    head += v.len();
                } else {
                    call("mq.pop", 0, 0);
                    let r = q.pop();
                    ret("mq.pop", r.as_ref().map(|i| i.id as u64).unwrap_or(u64::MAX));
                    match r {
                        Some(it) => {
                            let e = content.remove(0);
                            if e != it.id {
                                msgs.lock().unwrap().push(format!("prologue: pop returned {} expected {}", it.id, e));
                            }
                            popped.lock().unwrap().push(it.id);
                        }
                        None => {
                            msgs.lock().unwrap().push("prologue: pop returned None from a non-empty queue".into());
                            break;
                        }
                    }
                    head += 1;
                }
            }
            *init_q.lock().unwrap() = content;
            // ---- contended phase
            for g in &gates {
                open_gate(*g);
            }
            for op in cops {
                let t_call = clock.fetch_add(1, Ordering::SeqCst);
                let kind = match op {
                    COp::Push => {
                        let id = mine(&pushed);
                        call("mq.push", id as u64, 0);
                        q.push(Item { id });
                        ret("mq.push", 0);
                        HKind::Push(id)
                    }
                    COp::Pop => {
                        call("mq.pop", 0, 0);
                        let r = q.pop();
                        ret("mq.pop", r.as_ref().map(|i| i.id as u64).unwrap_or(u64::MAX));
                        if let Some(it) = &r {
                            popped.lock().unwrap().push(it.id);
                        }
                        HKind::Pop(r.map(|i| i.id))
                    }
                    COp::Bulk => {
                        call("mq.bulk_pop", 0, 0);
                        let v = q.bulk_pop();
                        for (i, it) in v.iter().enumerate() {
                            call("mq.bulk.item", i as u64, it.id as u64);
                        }
                        ret("mq.bulk_pop", v.len() as u64);
                        let ids: Vec<usize> = v.iter().map(|i| i.id).collect();
                        popped.lock().unwrap().extend(ids.iter().copied());
                        HKind::Bulk(ids)
                    }
                    COp::Peek => {
                        call("mq.peek", 0, 0);
                        let r = unsafe { q.peek() }.map(|i| i.id);
                        ret("mq.peek", r.map(|i| i as u64).unwrap_or(u64::MAX));
                        HKind::Peek(r)
                    }
                    COp::Len => {
                        call("mq.len", 0, 0);
                        let l = q.len();
                        ret("mq.len", l as u64);
                        HKind::Len(l)
                    }
                    COp::IsEmpty => {
                        call("mq.is_empty", 0, 0);
                        let e = q.is_empty();
                        ret("mq.is_empty", e as u64);
                        // recorded as a length observation only when exact (empty)
                        if e { HKind::Len(0) } else { HKind::Len(usize::MAX) }
                    }
                };
                let t_ret = clock.fetch_add(1, Ordering::SeqCst);
                hist.lock().unwrap().push(HOp { actor: 0, kind, call: t_call, ret: t_ret });
            }
            // ---- epilogue: wait for the producers, drop the queue with what is left
            for d in &dones {
                park_gate(*d);
            }
            call("mq.drop", 0, 0);
            unsafe { *cell.0.get() = None };
            ret("mq.drop", 0);
        }));
    }
    for p in 0..np {
        names.push(format!("t{}", p + 1));
        let (cell, hist, clock, pushed) = (cell.clone(), hist.clone(), clock.clone(), pushed.clone());
        let (gate, done, cnt) = (gates[p], dones[p], pcounts[p]);
        actors.push(Box::new(move || {
            park_gate(gate);
            let q: &Queue<Item> = unsafe { (*cell.0.get()).as_ref().unwrap() };
            for k in 0..cnt {
                let id = (p + 1) * 256 + k;
                pushed.lock().unwrap().push(id);
                let t_call = clock.fetch_add(1, Ordering::SeqCst);
                call("mq.push", id as u64, 0);
                q.push(Item { id });
                ret("mq.push", 0);
                let t_ret = clock.fetch_add(1, Ordering::SeqCst);
                hist.lock().unwrap().push(HOp { actor: p + 1, kind: HKind::Push(id), call: t_call, ret: t_ret });
            }
            open_gate(done);
        }));
    }
    let nact = np + 1;
    Built {
        header: format!(
            "family=mq_mpsc actors={} B={} fill={} drain={} ops={}",
            nact,
            b,
            fill,
            drain,
            desc.join(",")
        ),
        names,
        actors,
        check: Box::new(move |r| {
            let mut v: Vec<String> = oracle_msgs.lock().unwrap().clone();
            let complete = r.deadlock.is_none() && !r.budget_exceeded && r.panics.is_empty();
            v.extend(block_oracle(&r.log, "MpscBlock", complete));
            let pushed = pushed.lock().unwrap().clone();
            let popped = popped.lock().unwrap().clone();
            // never a value that was not pushed, never twice
            let mut seen = std::collections::HashSet::new();
            for x in &popped {
                if !pushed.contains(x) {
                    v.push(format!("popped value {x} was never pushed"));
                }
                if !seen.insert(*x) {
                    v.push(format!("value {x} popped twice"));
                }
            }
            // per-producer order
            for a in 0..nact {
                let mine: Vec<usize> = popped.iter().copied().filter(|x| x / 256 == a).collect();
                if mine.windows(2).any(|w| w[0] > w[1]) {
                    v.push(format!("values of producer t{a} came out in the wrong order: {mine:?}"));
                }
                // a popped value implies that all earlier values of the same producer were popped before it
                if let Some(&mx) = mine.last() {
                    let cnt = pushed.iter().filter(|x| **x / 256 == a && **x <= mx).count();
                    if cnt != mine.len() {
                        v.push(format!("producer t{a}: value {mx} popped but an earlier one is missing: {mine:?}"));
                    }
                }
            }
            if complete {
                // popped ⊎ dropped-with-the-queue = pushed, every payload dropped exactly once
                for x in &pushed {
                    let d = DROPS[*x].load(Ordering::SeqCst);
                    if d != 1 {
                        v.push(format!("payload {x} dropped {d} times (lost or duplicated)"));
                    }
                }
                for (i, d) in DROPS.iter().enumerate() {
                    if d.load(Ordering::SeqCst) != 0 && !pushed.contains(&i) {
                        v.push(format!("payload {i} dropped but never pushed"));
                    }
                }
                let h: Vec<HOp> = hist
                    .lock()
                    .unwrap()
                    .iter()
                    .filter(|o| o.kind != HKind::Len(usize::MAX))
                    .cloned()
                    .collect();
                if !linearizable(&init_q.lock().unwrap(), &h) {
                    v.push(format!("history is not linearizable to a FIFO queue: init={:?} ops={:?}", init_q.lock().unwrap(), h));
                }
            }
            v
        }),
        filter: vec!["src/mpsc.rs"],
        timeout_permille: 0,
    }
}
