//! C02 (det mode): `may::sync::Blocker` in THREAD context (it wraps a `ThreadPark`) under the det controller.
//!
//! `ThreadPark::{park_timeout, unpark}` are virtual here (the controller's token, `blk` events; a time-out is a
//! schedule choice that advances the virtual clock), so what is tied to the code is `Blocker::park/unpark`'s dispatch
//! to the ThreadPark and the binary-token contract; the parking_lot based implementation itself is modelled by contract
//! (`Park.tpStep`) and exercised by the live family `blocker` with `parker=thr`.
//!
//!   t0        : parks on blocker j with / without a duration     call blk.park j d_ms   ret blk.park r (0 Ok, 1 Timeout)
//!   t1 .. tk  : unpark blocker j                                  call blk.unpark j 0    ret blk.unpark 0
//!
//! An untimed park is always the FIRST park on its blocker and that blocker gets at least one unpark, so every scenario
//! terminates on a correct implementation whatever the schedule (tokens persist; merged tokens cannot starve it).
//! Oracles: every park returns (the controller reports a deadlock), `Timeout` only from a timed park, and per blocker
//! the number of `Ok` returns never exceeds the number of unparks (token conservation).
use super::Built;
use crate::rt::{call, ret, Actor, Rng};
use may::coroutine::ParkError;
use may::sync::Blocker;
use std::sync::atomic::{AtomicUsize, Ordering};
use std::sync::Arc;
use std::time::Duration;

pub fn build(rng: &mut Rng, tier: u32) -> Built {
    let nb = 1 + rng.below(3) as usize;
    let nunp = 1 + rng.below(if tier > 0 { 4 } else { 3 }) as usize;
    let nparks = 1 + rng.below(if tier > 0 { 8 } else { 5 }) as usize;
    // created here, in thread context, outside the controlled threads: they live as long as the scenario
    let bs: Vec<Arc<Blocker>> = (0..nb).map(|_| Blocker::current()).collect();
    let mut seen = vec![false; nb];
    let mut need = vec![false; nb];
    let mut parks: Vec<(usize, u64)> = vec![];
    for _ in 0..nparks {
        let j = rng.below(nb as u64) as usize;
        let d = if !seen[j] && rng.chance(500) { 0 } else { 1 + rng.below(20) };
        if d == 0 {
            need[j] = true;
        }
        seen[j] = true;
        parks.push((j, d));
    }
    let mut unparks: Vec<Vec<usize>> = (0..nunp)
        .map(|_| (0..rng.below(4)).map(|_| rng.below(nb as u64) as usize).collect())
        .collect();
    for j in 0..nb {
        if need[j] && !unparks.iter().flatten().any(|&x| x == j) {
            let k = rng.below(nunp as u64) as usize;
            unparks[k].push(j);
        }
    }
    let oks: Arc<Vec<AtomicUsize>> = Arc::new((0..nb).map(|_| AtomicUsize::new(0)).collect());
    let bad = Arc::new(AtomicUsize::new(0));
    let done_parks = Arc::new(AtomicUsize::new(0));
    let total_unparks: Vec<usize> = (0..nb).map(|j| unparks.iter().flatten().filter(|&&x| x == j).count()).collect();
    let mut actors: Vec<Actor> = vec![];
    let mut names = vec!["t0".to_string()];
    {
        let (bs, oks, bad, done, parks) = (bs.clone(), oks.clone(), bad.clone(), done_parks.clone(), parks.clone());
        actors.push(Box::new(move || {
            for (j, d) in parks {
                call("blk.park", j as u64, d);
                let r = bs[j].park(if d == 0 { None } else { Some(Duration::from_millis(d)) });
                match r {
                    Ok(()) => {
                        oks[j].fetch_add(1, Ordering::SeqCst);
                        ret("blk.park", 0);
                    }
                    Err(ParkError::Timeout) => {
                        if d == 0 {
                            bad.fetch_add(1, Ordering::SeqCst);
                        }
                        ret("blk.park", 1);
                    }
                    Err(ParkError::Canceled) => {
                        bad.fetch_add(1000, Ordering::SeqCst);
                        ret("blk.park", 2);
                    }
                }
                done.fetch_add(1, Ordering::SeqCst);
            }
        }));
    }
    for (k, us) in unparks.iter().enumerate() {
        names.push(format!("t{}", k + 1));
        let (bs, us) = (bs.clone(), us.clone());
        actors.push(Box::new(move || {
            for j in us {
                call("blk.unpark", j as u64, 0);
                bs[j].unpark();
                ret("blk.unpark", 0);
            }
        }));
    }
    let desc: Vec<String> = parks.iter().map(|(j, d)| format!("{j}:{d}")).collect();
    Built {
        header: format!("family=blocker_thr actors={} blockers={} parks={}", 1 + nunp, nb, desc.join(",")),
        names,
        actors,
        check: Box::new(move |r| {
            let _keep = &bs;
            let mut v = vec![];
            let b = bad.load(Ordering::SeqCst);
            if b % 1000 != 0 {
                v.push("Timeout from an untimed park".to_string());
            }
            if b >= 1000 {
                v.push("Canceled in thread context".to_string());
            }
            for j in 0..nb {
                let o = oks[j].load(Ordering::SeqCst);
                if o > total_unparks[j] {
                    v.push(format!("blocker {j}: {o} Ok returns from {} unparks", total_unparks[j]));
                }
            }
            if r.deadlock.is_none() && !r.budget_exceeded && r.panics.is_empty() && done_parks.load(Ordering::SeqCst) != nparks {
                v.push(format!("{} of {nparks} parks returned", done_parks.load(Ordering::SeqCst)));
            }
            v
        }),
        filter: vec!["sync/blocking.rs", "src/park.rs"],
        timeout_permille: 150,
    }
}
