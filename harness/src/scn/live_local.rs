//! C15: coroutine-local storage is private; a fresh coroutine starts clean (live mode)
//!
//! Part 1 – CLS: 2–4 named coroutines (`c1`…) and 0–2 threads (`t5`, `t6`) access 1–3 `coroutine_local!` keys holding
//! drop-counted values, between yields / sleeps (2–3 workers ⇒ migrations); some coroutines end by a panic or are
//! cancelled. Oracles: every context sees its own value for a key (ids never shared), the initialiser runs exactly once
//! per (context, key), the value and the payload written into it are unchanged by yields and migrations, a value is
//! not dropped while its coroutine runs and is dropped exactly once after the coroutine ended (thread fallback: at
//! thread exit).
//!
//! Part 2 – pool histories: the stack pool is made tiny (`set_pool_capacity(2)`, FIFO) so that stacks are reused at
//! once. A *predecessor* coroutine uses CLS and ends normally / by a panic / cancelled while parked / after a
//! `park` that timed out / as a `cqueue` arm that is removed around its `send` (the window of defect F8) / cancelled while
//! parked with a guard on its stack whose `Drop` yields (`yield_now`), sleeps 1 ms or parks with a time-out DURING the
//! Cancel unwind (the `yield_with` shortcut sets `Canceled`; only `check_cancel`'s `get_co_para` clears it); then fresh
//! coroutines (default stack size) are spawned whose FIRST action is a blocking call with an observable result:
//! `Blocker::park(Some(d))` that is unparked (must be `Ok`), the same without unpark (must be `Timeout`, never
//! `Canceled`), a contended `Mutex::lock()` (must not panic with Cancel / "mutex timeout"), `sleep(d)` (not early),
//! and a CLS access (must run the initialiser: empty map). Oracle: none of them sees anything of the predecessor.
//!
//! Part 3 – time-out / unpark race (seeded change C15_b): 6–12 coroutines wait in `coroutine::park_timeout(1–3 ms)` while
//! the main thread sweeps `Coroutine::unpark` over them around the expiry (the timer has taken a coroutine and stored
//! `TimedOut`, the unpark lands before the resumed coroutine consumed it); the pool capacity is raised so that all their
//! stacks are pooled, then as many fresh coroutines each make ONE probing wait whose result they must own: a blocking
//! `recv_from` on a UDP socket without time-out that gets one datagram (the io paths read the para: `co_io_result`), a
//! 5 s `Blocker::park` that is unparked, a `Semphore::wait_timeout(5 s)` that is posted, a 1 ms sleep. Oracle: a probe
//! that reports TimedOut / Canceled = "stale para reached a fresh coroutine".
//!
//! API events: `co.start c` · `cls.with k` → id · `cls.init id k` (inside `with`) · `cls.drop id k` · `co.end c how`
//! (0 normal, 1 panic, 2 cancelled) · `first.park u` → 0 Ok / 1 Timeout / 2 Canceled · `first.lock` → 0 · `first.sleep`
//! → 0 · `stack.reuse c` (the fresh coroutine runs on a predecessor's stack) · `unwind.yield` / `unwind.sleep` /
//! `unwind.park` → code (blocking calls of a `Drop` impl during the Cancel unwind) · `sweep.park ms` (call … ret) ·
//! `probe.udp` → 0 Ok / 1 TimedOut / 2 other error · `probe.park` → 0/1/2 · `probe.sem` → 1 acquired / 0 timed out.
use super::{spawn_actor_thread, LiveBuilt};
use crate::rt::{call, ret, Rng};
use may::coroutine::{self, ParkError};
use may::net::UdpSocket;
use may::sync::{Blocker, Mutex, Semphore};
use may::{coroutine_local, cqueue, go};
use std::collections::HashMap;
use std::sync::atomic::{AtomicBool, AtomicU64, Ordering::SeqCst};
use std::sync::{Arc, Mutex as StdMutex};
use std::time::{Duration, Instant};

struct Info {
    key: usize,
    ctx: String,
    drops: usize,
}
static NEXT: AtomicU64 = AtomicU64::new(1);
static REG: StdMutex<Option<HashMap<u64, Info>>> = StdMutex::new(None);
static STACKS: StdMutex<Vec<usize>> = StdMutex::new(Vec::new());
static GRAVE: StdMutex<Vec<coroutine::Coroutine>> = StdMutex::new(Vec::new());

fn ctx_name() -> String {
    // raw actor names of coroutines are `name|handle-address`
    match may::verif::current_actor() {
        Some(a) => match a.split_once('|') {
            Some(("?", _)) => a,
            Some((n, _)) => format!("c:{}", n.trim_start_matches("k:")),
            None => a,
        },
        None => std::thread::current().name().unwrap_or("?").to_string(),
    }
}

pub struct Dc {
    id: u64,
    key: usize,
    val: AtomicU64,
}
impl Dc {
    fn new(key: usize) -> Dc {
        let id = NEXT.fetch_add(1, SeqCst);
        if let Some(r) = REG.lock().unwrap_or_else(|e| e.into_inner()).as_mut() {
            r.insert(id, Info { key, ctx: ctx_name(), drops: 0 });
        }
        call("cls.init", id, key as u64);
        Dc { id, key, val: AtomicU64::new(0) }
    }
}
impl Drop for Dc {
    fn drop(&mut self) {
        call("cls.drop", self.id, self.key as u64);
        if let Some(r) = REG.lock().unwrap_or_else(|e| e.into_inner()).as_mut() {
            if let Some(i) = r.get_mut(&self.id) {
                i.drops += 1;
            }
        }
    }
}
coroutine_local!(static K0: Dc = Dc::new(0));
coroutine_local!(static K1: Dc = Dc::new(1));
coroutine_local!(static K2: Dc = Dc::new(2));

fn with_key<R>(k: usize, f: impl FnOnce(&Dc) -> R) -> R {
    match k {
        0 => K0.with(f),
        1 => K1.with(f),
        _ => K2.with(f),
    }
}

/// one access: returns the id seen; checks stability against what this context saw before
fn access(k: usize, seen: &mut HashMap<usize, (u64, u64)>, fails: &StdMutex<Vec<String>>, who: &str) -> u64 {
    call("cls.with", k as u64, 0);
    let (id, val) = with_key(k, |d| {
        let v = d.val.load(SeqCst);
        d.val.store(v + 1, SeqCst);
        (d.id, v)
    });
    ret("cls.with", id);
    match seen.get(&k) {
        None => {
            if val != 0 {
                fails.lock().unwrap_or_else(|e| e.into_inner()).push(format!("cls-private: {who} found key {k} already written ({val}) at its first access (value id {id})"));
            }
        }
        Some((id0, v0)) => {
            if *id0 != id || *v0 + 1 != val {
                fails.lock().unwrap_or_else(|e| e.into_inner()).push(format!("cls-stable: {who} key {k}: value id {id0}/payload {} became id {id}/payload {val}", v0 + 1));
            }
        }
    }
    seen.insert(k, (id, val));
    if let Some(r) = REG.lock().unwrap_or_else(|e| e.into_inner()).as_ref() {
        if let Some(i) = r.get(&id) {
            if i.drops != 0 {
                fails.lock().unwrap_or_else(|e| e.into_inner()).push(format!("cls-dropped-early: {who} accesses value {id} of key {k} after it was dropped"));
            }
            if i.ctx != who && !i.ctx.ends_with(who) {
                fails.lock().unwrap_or_else(|e| e.into_inner()).push(format!("cls-private: {who} sees value {id} of key {k} that was created by {}", i.ctx));
            }
        }
    }
    id
}

#[derive(Clone, Copy, Debug, PartialEq)]
enum Op {
    With(usize),
    Yield,
    Sleep(u64),
}
#[derive(Clone, Copy, Debug, PartialEq)]
enum End {
    Normal,
    Panic,
    Cancelled,
}
#[derive(Clone, Copy, Debug, PartialEq)]
enum Pred {
    Normal,
    Panic,
    CancelledParked,
    ParkTimedOut,
    SelArm,
    /// cancelled while parked; a guard on its stack yields / sleeps / parks in its `Drop`, i.e. during the Cancel unwind
    DropYield,
    DropSleep,
    DropPark,
}

/// its `Drop` makes a blocking call while the Cancel panic unwinds the coroutine
struct UnwindGuard(Pred);
impl Drop for UnwindGuard {
    fn drop(&mut self) {
        if !std::thread::panicking() {
            return;
        }
        match self.0 {
            Pred::DropYield => {
                call("unwind.yield", 0, 0);
                coroutine::yield_now();
                ret("unwind.yield", 0);
            }
            Pred::DropSleep => {
                call("unwind.sleep", 0, 0);
                coroutine::sleep(Duration::from_millis(1));
                ret("unwind.sleep", 0);
            }
            Pred::DropPark => {
                call("unwind.park", 0, 0);
                let r = Blocker::current().park(Some(Duration::from_millis(1)));
                ret("unwind.park", match r {
                    Ok(()) => 0,
                    Err(ParkError::Timeout) => 1,
                    Err(ParkError::Canceled) => 2,
                });
            }
            _ => {}
        }
    }
}
#[derive(Clone, Copy, Debug, PartialEq)]
enum First {
    ParkUnparked,
    ParkTimeout,
    Lock,
    Sleep,
    Cls,
}

fn stack_page() -> usize {
    let x = 0u8;
    (&x as *const u8 as usize) >> 15 // default stack = 32 KB
}

struct Sh {
    fails: StdMutex<Vec<String>>,
}

fn cls_coroutine(name: String, ops: Vec<Op>, end: End, sh: Arc<Sh>, parked: Arc<AtomicBool>) -> coroutine::JoinHandle<Vec<u64>> {
    let n2 = name.clone();
    unsafe {
        coroutine::Builder::new()
            .name(name)
            .spawn(move || {
                GRAVE.lock().unwrap_or_else(|e| e.into_inner()).push(coroutine::current());
                let who = format!("c:{n2}");
                call("co.start", 0, 0);
                let mut seen = HashMap::new();
                let mut ids = vec![];
                for op in &ops {
                    match op {
                        Op::With(k) => ids.push(access(*k, &mut seen, &sh.fails, &who)),
                        Op::Yield => coroutine::yield_now(),
                        Op::Sleep(us) => coroutine::sleep(Duration::from_micros(*us)),
                    }
                }
                match end {
                    End::Normal => call("co.end", 0, 0),
                    End::Panic => {
                        call("co.end", 1, 0);
                        panic!("local-boom");
                    }
                    End::Cancelled => {
                        call("co.end", 2, 0);
                        parked.store(true, SeqCst);
                        // ends by cancellation. (That the cancel is DELIVERED is C09's property, not this one's: on a worker whose
                        // std panic count was corrupted by a coroutine that switched out while unwinding – `Park::drop` yields with
                        // the cancel disabled – `check_cancel` sees `thread::panicking()` and the park just returns.)
                        coroutine::park();
                    }
                }
                ids
            })
            .unwrap()
    }
}

fn run(spec: Spec) -> Vec<String> {
    *REG.lock().unwrap_or_else(|e| e.into_inner()) = Some(HashMap::new());
    STACKS.lock().unwrap_or_else(|e| e.into_inner()).clear();
    GRAVE.lock().unwrap_or_else(|e| e.into_inner()).clear();
    let sh = Arc::new(Sh { fails: StdMutex::new(vec![]) });
    let fail = |s: String| sh.fails.lock().unwrap_or_else(|e| e.into_inner()).push(s);
    // ------------------------------------------------------------------ part 1: CLS
    let mut hs = vec![];
    for (i, (ops, end)) in spec.cos.iter().enumerate() {
        let parked = Arc::new(AtomicBool::new(false));
        let h = cls_coroutine(format!("c{}", i + 1), ops.clone(), *end, sh.clone(), parked.clone());
        hs.push((h, *end, parked, i + 1));
    }
    let mut ths = vec![];
    for (i, ops) in spec.threads.iter().enumerate() {
        let (ops, sh2) = (ops.clone(), sh.clone());
        let name = format!("t{}", i + 5);
        let n2 = name.clone();
        ths.push(spawn_actor_thread(&name, move || {
            let mut seen = HashMap::new();
            for op in &ops {
                match op {
                    Op::With(k) => {
                        access(*k, &mut seen, &sh2.fails, &n2);
                    }
                    Op::Yield => std::thread::yield_now(),
                    Op::Sleep(us) => std::thread::sleep(Duration::from_micros(*us)),
                }
            }
        }));
    }
    let mut accessed: Vec<(usize, Vec<u64>, End)> = vec![];
    for (h, end, parked, i) in hs {
        if end == End::Cancelled {
            let t0 = Instant::now();
            while !parked.load(SeqCst) && t0.elapsed() < Duration::from_secs(5) {
                std::thread::sleep(Duration::from_micros(50));
            }
            unsafe { h.coroutine().cancel() };
        }
        let co = h.coroutine().clone();
        let r = h.join();
        GRAVE.lock().unwrap_or_else(|e| e.into_inner()).push(co);
        match (end, r) {
            (End::Normal, Ok(ids)) => accessed.push((i, ids, end)),
            (End::Normal, Err(_)) => fail(format!("c{i} panicked")),
            (End::Cancelled, Ok(ids)) => accessed.push((i, ids, end)), // see the comment at its `park`
            (_, Ok(_)) => fail(format!("c{i} returned although it panics")),
            (_, Err(_)) => accessed.push((i, vec![], end)),
        }
    }
    for t in ths {
        let _ = t.join();
    }
    // ------------------------------------------------------------------ part 2: pool histories
    for (pi, (pred, firsts)) in spec.hist.iter().enumerate() {
        let pname = format!("p{}", pi + 1);
        let pred_ids = Arc::new(StdMutex::new(vec![]));
        let (pi2, sh2) = (pred_ids.clone(), sh.clone());
        let body = move |who: String| {
            STACKS.lock().unwrap_or_else(|e| e.into_inner()).push(stack_page());
            let mut seen = HashMap::new();
            let id = access(pi % 3, &mut seen, &sh2.fails, &who);
            pi2.lock().unwrap_or_else(|e| e.into_inner()).push(id);
        };
        match pred {
            Pred::SelArm => {
                // a select coroutine that is removed around its `send`
                let delay = spec.sel_delay_us;
                cqueue::scope(|cq| {
                    let b2 = body.clone();
                    let s = go!(cq, 0, move |es| {
                        GRAVE.lock().unwrap_or_else(|e| e.into_inner()).push(coroutine::current());
                        b2(ctx_name());
                        coroutine::yield_now();
                        es.send(0);
                    });
                    let t = spawn_actor_thread("t2", move || {
                        std::thread::sleep(Duration::from_micros(delay));
                        s.remove();
                    });
                    let _ = cq.poll(Some(Duration::from_millis(2)));
                    let _ = t.join();
                });
            }
            _ => {
                let parked = Arc::new(AtomicBool::new(false));
                let (p2, pred2, pn2, b2) = (parked.clone(), *pred, pname.clone(), body.clone());
                let h = unsafe {
                    coroutine::Builder::new()
                        .name(pname.clone())
                        .spawn(move || {
                            GRAVE.lock().unwrap_or_else(|e| e.into_inner()).push(coroutine::current());
                            call("co.start", 0, 0);
                            b2(format!("c:{pn2}"));
                            match pred2 {
                                Pred::Normal => call("co.end", 0, 0),
                                Pred::Panic => {
                                    call("co.end", 1, 0);
                                    panic!("local-boom");
                                }
                                Pred::CancelledParked => {
                                    call("co.end", 2, 0);
                                    p2.store(true, SeqCst);
                                    let b = Blocker::current();
                                    let _ = b.park(None);
                                }
                                Pred::DropYield | Pred::DropSleep | Pred::DropPark => {
                                    call("co.end", 2, 0);
                                    let _g = UnwindGuard(pred2);
                                    p2.store(true, SeqCst);
                                    let b = Blocker::current();
                                    let _ = b.park(None);
                                }
                                Pred::ParkTimedOut => {
                                    let b = Blocker::current();
                                    let r = b.park(Some(Duration::from_millis(1)));
                                    if r != Err(ParkError::Timeout) {
                                        // reported below through the generic first-call oracle only when it matters
                                    }
                                    call("co.end", 0, 0);
                                }
                                Pred::SelArm => {}
                            }
                        })
                        .unwrap()
                };
                if matches!(pred, Pred::CancelledParked | Pred::DropYield | Pred::DropSleep | Pred::DropPark) {
                    let t0 = Instant::now();
                    while !parked.load(SeqCst) && t0.elapsed() < Duration::from_secs(5) {
                        std::thread::sleep(Duration::from_micros(50));
                    }
                    std::thread::sleep(Duration::from_micros(spec.sel_delay_us % 200));
                    unsafe { h.coroutine().cancel() };
                }
                let co = h.coroutine().clone();
                let _ = h.join();
                GRAVE.lock().unwrap_or_else(|e| e.into_inner()).push(co);
            }
        }
        // the predecessor's stack goes back to the pool a moment after its join was triggered
        std::thread::sleep(Duration::from_micros(300));
        let pred_ids: Vec<u64> = pred_ids.lock().unwrap_or_else(|e| e.into_inner()).clone();
        let pred_stacks: Vec<usize> = STACKS.lock().unwrap_or_else(|e| e.into_inner()).clone();
        let lock = Arc::new(Mutex::new(0u32));
        for (fi, first) in firsts.iter().enumerate() {
            let fname = format!("f{}{}", pi + 1, fi + 1);
            let blk: Arc<StdMutex<Option<Arc<Blocker>>>> = Arc::new(StdMutex::new(None));
            let (blk2, first2, fn2, sh2, lock2, ps2, pids2) = (blk.clone(), *first, fname.clone(), sh.clone(), lock.clone(), pred_stacks.clone(), pred_ids.clone());
            let guard = if *first == First::Lock { Some(lock.lock().unwrap_or_else(|e| e.into_inner())) } else { None };
            let h = unsafe {
                coroutine::Builder::new()
                    .name(fname.clone())
                    .spawn(move || {
                        GRAVE.lock().unwrap_or_else(|e| e.into_inner()).push(coroutine::current());
                        let who = format!("c:{fn2}");
                        call("co.start", 0, 0);
                        if ps2.contains(&stack_page()) {
                            call("stack.reuse", 0, 0);
                        }
                        let bad = |s: String| sh2.fails.lock().unwrap_or_else(|e| e.into_inner()).push(s);
                        match first2 {
                            First::ParkUnparked | First::ParkTimeout => {
                                let unp = first2 == First::ParkUnparked;
                                call("first.park", unp as u64, 0);
                                let b = Blocker::current();
                                *blk2.lock().unwrap_or_else(|e| e.into_inner()) = Some(b.clone());
                                let d = if unp { Duration::from_secs(5) } else { Duration::from_millis(1) };
                                let r = b.park(Some(d));
                                let code = match r {
                                    Ok(()) => 0,
                                    Err(ParkError::Timeout) => 1,
                                    Err(ParkError::Canceled) => 2,
                                };
                                ret("first.park", code);
                                if code == 2 {
                                    bad(format!("stale-para: the fresh coroutine {who} saw a cancellation nobody requested: its first park returned Canceled"));
                                } else if unp && code == 1 {
                                    bad(format!("stale-para: the first park (5 s) of the fresh coroutine {who} returned Timeout although it was unparked at once"));
                                } else if !unp && code == 0 {
                                    bad(format!("stale-wake: the first park of the fresh coroutine {who} returned Ok although nobody unparked it"));
                                }
                            }
                            First::Lock => {
                                call("first.lock", 0, 0);
                                let g = lock2.lock();
                                ret("first.lock", g.is_err() as u64);
                            }
                            First::Sleep => {
                                call("first.sleep", 0, 0);
                                let t0 = Instant::now();
                                coroutine::sleep(Duration::from_millis(1));
                                ret("first.sleep", 0);
                                if t0.elapsed() < Duration::from_millis(1) {
                                    bad(format!("stale-para: the first sleep(1 ms) of the fresh coroutine {who} returned after {:?}", t0.elapsed()));
                                }
                            }
                            First::Cls => {
                                let mut seen = HashMap::new();
                                let id = access(0, &mut seen, &sh2.fails, &who);
                                let id2 = access(1, &mut seen, &sh2.fails, &who);
                                if pids2.contains(&id) || pids2.contains(&id2) {
                                    bad(format!("fresh-map: the fresh coroutine {who} sees a value of its stack's previous occupant"));
                                }
                            }
                        }
                        call("co.end", 0, 0);
                    })
                    .unwrap()
            };
            match first {
                First::ParkUnparked => {
                    // unpark as soon as the blocker exists
                    let t0 = Instant::now();
                    loop {
                        if let Some(b) = blk.lock().unwrap_or_else(|e| e.into_inner()).as_ref() {
                            b.unpark();
                            break;
                        }
                        if t0.elapsed() > Duration::from_secs(5) {
                            break;
                        }
                        std::thread::sleep(Duration::from_micros(20));
                    }
                }
                First::Lock => {
                    std::thread::sleep(Duration::from_micros(200));
                    drop(guard);
                }
                _ => {}
            }
            let co = h.coroutine().clone();
            if let Err(e) = h.join() {
                // the payload of a Cancel panic is `generator::Error::Cancel` (not a string)
                let what = e.downcast_ref::<String>().cloned().or(e.downcast_ref::<&str>().map(|s| s.to_string())).unwrap_or_else(|| "a Cancel panic (non-string payload)".into());
                fail(format!("fresh-panic: the fresh coroutine {fname} saw a cancellation or error nobody requested: first action {first:?} after a predecessor that {pred:?} ended with {what}"));
            }
            GRAVE.lock().unwrap_or_else(|e| e.into_inner()).push(co);
        }
    }
    // ------------------------------------------------------------------ part 3: time-out / unpark race, then probes
    if let Some((n, ms, off)) = spec.sweep {
        may::config().set_pool_capacity(n + 2); // `put` reads the capacity every time: all the stacks are pooled
        let t0 = Instant::now();
        let hs: Vec<_> = (0..n)
            .map(|i| unsafe {
                coroutine::Builder::new()
                    .name(format!("s{}", i + 1))
                    .spawn(move || {
                        GRAVE.lock().unwrap_or_else(|e| e.into_inner()).push(coroutine::current());
                        call("co.start", 0, 0);
                        STACKS.lock().unwrap_or_else(|e| e.into_inner()).push(stack_page());
                        call("sweep.park", ms, 0);
                        coroutine::park_timeout(Duration::from_millis(ms));
                        ret("sweep.park", 0);
                        call("co.end", 0, 0);
                    })
                    .unwrap()
            })
            .collect();
        let at = t0 + Duration::from_millis(ms) + Duration::from_micros(off);
        let at = at.checked_sub(Duration::from_micros(100)).unwrap_or(at);
        while Instant::now() < at {
            std::hint::spin_loop();
        }
        for h in &hs {
            h.coroutine().unpark();
        }
        for h in hs {
            let co = h.coroutine().clone();
            if h.join().is_err() {
                fail("a sweep coroutine panicked".into());
            }
            GRAVE.lock().unwrap_or_else(|e| e.into_inner()).push(co);
        }
        std::thread::sleep(Duration::from_micros(300));
        let stacks: Vec<usize> = STACKS.lock().unwrap_or_else(|e| e.into_inner()).clone();
        let probe = Arc::new(UdpSocket::bind("127.0.0.1:0").unwrap());
        let addr = probe.local_addr().unwrap();
        let sender = std::net::UdpSocket::bind("127.0.0.1:0").unwrap();
        for j in 0..n + 2 {
            let kind = j % 4;
            let qname = format!("q{}", j + 1);
            let ready = Arc::new(AtomicBool::new(false));
            let blk: Arc<StdMutex<Option<Arc<Blocker>>>> = Arc::new(StdMutex::new(None));
            let sem = Arc::new(Semphore::new(0));
            let (p2, r2, b2, s2, sh2, st2, qn2) = (probe.clone(), ready.clone(), blk.clone(), sem.clone(), sh.clone(), stacks.clone(), qname.clone());
            let h = unsafe {
                coroutine::Builder::new()
                    .name(qname.clone())
                    .spawn(move || {
                        GRAVE.lock().unwrap_or_else(|e| e.into_inner()).push(coroutine::current());
                        let who = format!("c:{qn2}");
                        call("co.start", 0, 0);
                        if st2.contains(&stack_page()) {
                            call("stack.reuse", 0, 0);
                        }
                        let bad = |what: String| sh2.fails.lock().unwrap_or_else(|e| e.into_inner()).push(format!("stale-para: stale para reached a fresh coroutine: {who} {what}"));
                        match kind {
                            0 | 1 => {
                                // no time-out was ever set on this socket
                                call("probe.udp", 0, 0);
                                let mut buf = [0u8; 8];
                                r2.store(true, SeqCst);
                                let r = p2.recv_from(&mut buf).map(|(n, _)| n);
                                let code = match &r {
                                    Ok(_) => 0,
                                    Err(e) if e.kind() == std::io::ErrorKind::TimedOut => 1,
                                    Err(_) => 2,
                                };
                                ret("probe.udp", code);
                                if code != 0 {
                                    bad(format!("got {r:?} from its first recv_from on a socket without time-out"));
                                }
                            }
                            2 => {
                                call("probe.park", 1, 0);
                                let b = Blocker::current();
                                *b2.lock().unwrap_or_else(|e| e.into_inner()) = Some(b.clone());
                                r2.store(true, SeqCst);
                                let r = b.park(Some(Duration::from_secs(5)));
                                let code = match r {
                                    Ok(()) => 0,
                                    Err(ParkError::Timeout) => 1,
                                    Err(ParkError::Canceled) => 2,
                                };
                                ret("probe.park", code);
                                if code != 0 {
                                    bad(format!("got {r:?} from its first park (5 s), which was unparked at once"));
                                }
                            }
                            _ => {
                                call("probe.sem", 0, 0);
                                r2.store(true, SeqCst);
                                let ok = s2.wait_timeout(Duration::from_secs(5));
                                ret("probe.sem", ok as u64);
                                if !ok {
                                    bad("timed out in its first Semphore::wait_timeout(5 s), which was posted at once".into());
                                }
                            }
                        }
                        call("co.end", 0, 0);
                    })
                    .unwrap()
            };
            let t1 = Instant::now();
            while !ready.load(SeqCst) && t1.elapsed() < Duration::from_secs(5) {
                std::hint::spin_loop();
            }
            // give it the time to block
            std::thread::sleep(Duration::from_micros(150));
            match kind {
                0 | 1 => {
                    let _ = sender.send_to(b"x", addr);
                }
                2 => {
                    if let Some(b) = blk.lock().unwrap_or_else(|e| e.into_inner()).as_ref() {
                        b.unpark();
                    }
                }
                _ => sem.post(),
            }
            let co = h.coroutine().clone();
            if h.join().is_err() {
                fail(format!("fresh-panic: the probing coroutine {qname} saw a cancellation or error nobody requested: it panicked"));
            }
            GRAVE.lock().unwrap_or_else(|e| e.into_inner()).push(co);
        }
        may::config().set_pool_capacity(2);
    }
    // ------------------------------------------------------------------ final accounting
    // the last `drop_coroutine` runs a moment after the join was triggered: wait for completion (no real-time upper bound:
    // give up only after 5 s, a value that is still not dropped then is reported below)
    let t_acc = Instant::now();
    loop {
        let pending = REG.lock().unwrap_or_else(|e| e.into_inner()).as_ref().map(|r| r.values().filter(|i| i.drops == 0).count()).unwrap_or(0);
        if pending == 0 || t_acc.elapsed() > Duration::from_secs(5) {
            break;
        }
        std::thread::sleep(Duration::from_micros(200));
    }
    if let Some(r) = REG.lock().unwrap_or_else(|e| e.into_inner()).as_ref() {
        let mut per: HashMap<(String, usize), usize> = HashMap::new();
        for (id, i) in r.iter() {
            *per.entry((i.ctx.clone(), i.key)).or_insert(0) += 1;
            if i.drops != 1 {
                fail(format!("cls-dropped-once: value {id} of key {} created by {} was dropped {} times after its context ended", i.key, i.ctx, i.drops));
            }
        }
        for ((ctx, k), n) in per {
            if n != 1 {
                fail(format!("cls-init-once: the initialiser of key {k} ran {n} times in {ctx}"));
            }
        }
    }
    let _ = accessed;
    *REG.lock().unwrap_or_else(|e| e.into_inner()) = None;
    let f = sh.fails.lock().unwrap_or_else(|e| e.into_inner()).clone();
    f
}

#[derive(Clone, Debug)]
struct Spec {
    cos: Vec<(Vec<Op>, End)>,
    threads: Vec<Vec<Op>>,
    hist: Vec<(Pred, Vec<First>)>,
    sel_delay_us: u64,
    /// part 3: (coroutines, park time-out in ms, offset of the unpark sweep after the expiry in µs – 100)
    sweep: Option<(usize, u64, u64)>,
}

pub fn build(rng: &mut Rng, tier: u32) -> LiveBuilt {
    static ONCE: std::sync::Once = std::sync::Once::new();
    ONCE.call_once(|| {
        // a tiny FIFO pool: a finished coroutine's stack is handed to one of the next two spawns
        may::config().set_pool_capacity(2);
        std::panic::set_hook(Box::new(|_| {})); // panics are part of the scenarios (no backtrace on a 32 KB stack)
    });
    let nk = 1 + rng.below(3) as usize;
    let gen_ops = |rng: &mut Rng| -> Vec<Op> {
        let n = 2 + rng.below(if tier > 0 { 8 } else { 5 });
        (0..n)
            .map(|_| match rng.below(6) {
                0 | 1 | 2 => Op::With(rng.below(nk as u64) as usize),
                3 | 4 => Op::Yield,
                _ => Op::Sleep(100 + rng.below(600)),
            })
            .collect()
    };
    let nco = 2 + rng.below(3) as usize;
    let cos = (0..nco)
        .map(|_| {
            let ops = gen_ops(rng);
            let end = match rng.below(8) {
                0 => End::Panic,
                1 => End::Cancelled,
                _ => End::Normal,
            };
            (ops, end)
        })
        .collect();
    let threads = (0..rng.below(3)).map(|_| gen_ops(rng)).collect();
    let nh = 1 + rng.below(3) as usize;
    let hist = (0..nh)
        .map(|_| {
            let pred = match rng.below(10) {
                0 => Pred::Normal,
                1 => Pred::Panic,
                2 => Pred::CancelledParked,
                3 => Pred::ParkTimedOut,
                4 | 5 => Pred::SelArm,
                6 | 7 => Pred::DropYield,
                8 => Pred::DropSleep,
                _ => Pred::DropPark,
            };
            let firsts = (0..2 + rng.below(2))
                .map(|_| match rng.below(6) {
                    0 | 1 => First::ParkUnparked,
                    2 => First::ParkTimeout,
                    3 => First::Lock,
                    4 => First::Sleep,
                    _ => First::Cls,
                })
                .collect();
            (pred, firsts)
        })
        .collect();
    let sweep = if rng.chance(400) { Some((6 + rng.below(7) as usize, 1 + rng.below(3), rng.below(1200))) } else { None };
    let spec = Spec { cos, threads, hist, sel_delay_us: rng.below(400), sweep };
    let header = format!("family=local keys={nk} cos={nco}");
    LiveBuilt {
        header,
        filter: vec!["src/cancel.rs", "src/cqueue.rs"],
        hang_ms: 8_000,
        run: Box::new(move || run(spec)),
    }
}
