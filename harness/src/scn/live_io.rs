//! C17 / C18: network I/O on real sockets (loopback TCP / UDP, Unix socket pairs), live mode only.
//!
//! Three families, all on the real runtime with the real kernel as the (unverified) environment:
//! * `io_stream`  – byte-stream preservation and datagram boundaries under seeded chunkings, buffer sizes, socket
//!                  buffer sizes and caller kinds (coroutine / plain thread); completion is the watchdog's business;
//! * `io_timeout` – read / recv_from time-outs: never early (exact lower bound, no upper bound), data that arrives in
//!                  time is returned, an earlier time-out never leaks into a later operation on the same socket;
//! * `io_cancel`  – cancel of a coroutine blocked in read / accept at a seeded moment: Cancel error at join, what it
//!                  owned is closed (peer sees EOF), other connections' transfers are unaffected.
//! PARTIAL BY NATURE: the kernel is not verified; no oracle depends on a real-time *upper* bound.
//!
//! Nothing here is opt-in: time-outs go down to 0.3 ms in `io_timeout`, `io_timeout_race` is a regular family. On a tree WITHOUT
//! `fix: io-timer-handle-race` these shapes fail with the stable prefix `F26:` (a runtime thread panicked in `RefCell::borrow_mut` /
//! `with_mut_data`, an operation without a time-out got TimedOut, a timed read never returned); on a tree WITHOUT
//! `fix: io-stale-set_io` the two-socket victim of `io_cancel` fails with `F27:` (the cancelled coroutine is never resumed).
//! Which of the two repairs the tree has is read from its source (`source_flags`) and written into the scenario header
//! (`timerfix=` / `regfirst=`): the replay model runs the matching variant, so the same check works on both kinds of tree.
use super::{spawn_actor_thread, LiveBuilt};
use crate::rt::{call, ret, Rng};
use may::coroutine;
use may::net::{TcpListener, TcpStream, UdpSocket};
use may::os::unix::net::{UnixDatagram, UnixStream};
use std::io::{Read, Write};
use std::net::Shutdown;
use std::os::unix::io::AsRawFd;
use std::sync::atomic::{AtomicBool, AtomicUsize, Ordering};
use std::sync::{Arc, Mutex};
use std::time::{Duration, Instant};

pub const FILTER: [&str; 4] =
    ["src/io/sys/unix/mod.rs", "src/io/sys/unix/cancel.rs", "src/cancel.rs", "src/sync/atomic_dur.rs"];

// ---------------------------------------------------------------- small helpers

extern "C" {
    fn setsockopt(fd: i32, level: i32, name: i32, val: *const core::ffi::c_void, len: u32) -> i32;
}
const SOL_SOCKET: i32 = 1;
const SO_SNDBUF: i32 = 7;
const SO_RCVBUF: i32 = 8;
fn set_buf(fd: i32, name: i32, bytes: i32) {
    unsafe {
        setsockopt(fd, SOL_SOCKET, name, &bytes as *const i32 as *const _, 4);
    }
}

type Fails = Arc<Mutex<Vec<String>>>;
fn fail(f: &Fails, s: String) {
    f.lock().unwrap().push(s);
}

/// deterministic payload of connection `id`
fn payload(seed: u64, id: u64, len: usize) -> Vec<u8> {
    let mut x = seed.wrapping_mul(0x9E3779B97F4A7C15) ^ id.wrapping_mul(0xD1B54A32D192ED03) | 1;
    (0..len)
        .map(|_| {
            x ^= x << 13;
            x ^= x >> 7;
            x ^= x << 17;
            (x >> 24) as u8
        })
        .collect()
}

/// result code of an io call for the trace: n >= 0, -2 TimedOut, -3 WouldBlock, -4 other error
fn rc(r: &std::io::Result<usize>) -> u64 {
    match r {
        Ok(n) => *n as u64,
        Err(e) if e.kind() == std::io::ErrorKind::TimedOut => (-2i64) as u64,
        Err(e) if e.kind() == std::io::ErrorKind::WouldBlock => (-3i64) as u64,
        Err(_) => (-4i64) as u64,
    }
}

// ---- keeping things alive past their last use (OFF by default since the fixes are in /repo)
// On the tree before 128a1d4 the `subscribe` of the net operations used `self`, `io_data` (a reference into the caller's socket
// object) and `cancel` (a reference into the coroutine's handle) after publishing the coroutine with `io_data.co.store(co)`: a
// use-after-free that the perturbation widened to milliseconds. With `VH_IO_KEEPALIVE=1` the scenarios keep every socket (boxed),
// coroutine handle and actor thread alive until the run has settled, which is how the check was kept stable on that tree.
// By default sockets are now dropped right after use, actor threads end with their work, may's `connect` runs under
// perturbation: the shapes that crashed / hung before must stay quiet.
static KEEP: Mutex<Vec<coroutine::Coroutine>> = Mutex::new(Vec::new());
static THREADS: Mutex<Vec<std::thread::JoinHandle<()>>> = Mutex::new(Vec::new());
static RELEASE: AtomicBool = AtomicBool::new(true);
static SOCKS: Mutex<Vec<Box<dyn std::any::Any + Send>>> = Mutex::new(Vec::new());
/// a socket the scenario is done with: closed only when the run has settled (second half of the same finding: `subscribe`
/// also reads `io_data`, a reference into the caller's socket object, after it published the coroutine)
fn park_sock<T: Send + 'static>(t: T) {
    if keepalive() {
        SOCKS.lock().unwrap().push(Box::new(t));
    }
}
fn keepalive() -> bool {
    std::env::var("VH_IO_KEEPALIVE").is_ok()
}
fn scenario_begin() {
    quiet_panics();
    install_stalls();
    clear_stalls();
    RELEASE.store(false, Ordering::SeqCst);
    RT_PANICS.lock().unwrap().clear();
}

// ---- targeted stalls: seeded delays in front of three hooked operations, on top of the random perturbation of `vh live` (which
// delays every hooked operation with the same small probability: the chains below need two or three long delays at the right
// places, too rare to be met by chance within the budget of a check run). The installed hook table is wrapped; with no stall
// planned the wrapper only passes through.
//   * STALL_TAIL_US    – one-shot: the next subscribing kernel tail, between arming the io timer and `co.store`: the timer fires
//                        before the coroutine is published (the window of 999f25c);
//   * STALL_HANDLER_US – one-shot: the next timeout handler, before its `co.take`: meanwhile the re-run coroutine retries and publishes itself for a
//                        LATER wait (finding 5; with the fix the handler holds the cell's lock and everybody waits for it);
//   * STALL_SETIO_US   – one-shot: the next `CancelIoImpl` registration (`set_io`) of any kernel tail: without the fix it comes after
//                        the publication and can be overtaken by a whole later operation of the same coroutine (finding 6)
static STALL_TAIL_US: std::sync::atomic::AtomicU64 = std::sync::atomic::AtomicU64::new(0);
static STALL_HANDLER_US: std::sync::atomic::AtomicU64 = std::sync::atomic::AtomicU64::new(0);
static STALL_SETIO_US: std::sync::atomic::AtomicU64 = std::sync::atomic::AtomicU64::new(0);
static INNER_HOOKS: std::sync::OnceLock<&'static may::verif::Hooks> = std::sync::OnceLock::new();
thread_local! {
    static IN_HANDLER: std::cell::Cell<bool> = const { std::cell::Cell::new(false) };
    static ARMING: std::cell::Cell<bool> = const { std::cell::Cell::new(false) };
}
fn inner_hooks() -> &'static may::verif::Hooks {
    INNER_HOOKS.get().unwrap()
}
fn stall_before(ev: &may::verif::Ev) {
    let f = ev.site.file();
    let mut us = 0;
    if f.ends_with("io/sys/unix/mod.rs") {
        match ev.op {
            "t.fire" => IN_HANDLER.set(true),
            "t.stale" => IN_HANDLER.set(false),
            "t.arm" => ARMING.set(true),
            // (one-shot each: a tail that is late on EVERY retry would turn the retry of 999f25c into a loop that only ends by chance)
            "opt.take" if IN_HANDLER.get() => {
                IN_HANDLER.set(false);
                us = STALL_HANDLER_US.swap(0, Ordering::Relaxed);
            }
            "opt.store" if ARMING.get() => {
                ARMING.set(false);
                us = STALL_TAIL_US.swap(0, Ordering::Relaxed);
            }
            _ => {}
        }
    } else if ev.op == "opt.store" && f.ends_with("io/sys/unix/cancel.rs") {
        us = STALL_SETIO_US.swap(0, Ordering::Relaxed);
    }
    if us > 0 {
        std::thread::sleep(Duration::from_micros(us));
    }
    (inner_hooks().before)(ev)
}
fn stall_after(ev: &may::verif::Ev, r: u64, flag: u8) {
    (inner_hooks().after)(ev, r, flag)
}
fn stall_park(a: usize, d: Option<Duration>) -> Option<bool> {
    (inner_hooks().park)(a, d)
}
fn stall_unpark(a: usize) -> bool {
    (inner_hooks().unpark)(a)
}
fn stall_note(k: &'static str, w: &str) {
    (inner_hooks().note)(k, w)
}
fn stall_now() -> Option<u64> {
    (inner_hooks().now)()
}
static STALL_HOOKS: may::verif::Hooks =
    may::verif::Hooks { before: stall_before, after: stall_after, park: stall_park, unpark: stall_unpark, note: stall_note, now: stall_now };
fn install_stalls() {
    use std::sync::Once;
    static ONCE: Once = Once::new();
    ONCE.call_once(|| {
        if let Some(h) = may::verif::hooks() {
            let _ = INNER_HOOKS.set(h);
            may::verif::install(&STALL_HOOKS);
        }
    });
}
fn clear_stalls() {
    STALL_TAIL_US.store(0, Ordering::Relaxed);
    STALL_HANDLER_US.store(0, Ordering::Relaxed);
    STALL_SETIO_US.store(0, Ordering::Relaxed);
}

/// which of the two repairs does the tree under test have? (derived from its source, like `subscribe_registers_first` of the cancel
/// families): `timerfix` – `EventData::arm_timer` exists (the timer-handle cell is a lock that carries the wait number);
/// `regfirst` – `SocketRead::subscribe` calls `set_io` before it publishes the coroutine
pub fn source_flags() -> String {
    use std::sync::OnceLock;
    static FLAGS: OnceLock<String> = OnceLock::new();
    FLAGS
        .get_or_init(|| {
            let repo = std::env::var("VERIF_REPO").unwrap_or_else(|_| "/repo".into());
            let timerfix = std::fs::read_to_string(format!("{repo}/src/io/sys/unix/mod.rs")).map(|s| s.contains("pub fn arm_timer")).unwrap_or(false);
            let regfirst = std::fs::read_to_string(format!("{repo}/src/io/sys/unix/net/socket_read.rs"))
                .map(|s| match (s.find(".set_io("), s.find(".co.store(")) {
                    (Some(a), Some(b)) => a < b,
                    _ => false,
                })
                .unwrap_or(false);
            format!("timerfix={} regfirst={}", timerfix as u8, regfirst as u8)
        })
        .clone()
}

/// panics of threads of the may runtime (workers, selectors) inside the io code or the timer list – never expected
static RT_PANICS: Mutex<Vec<String>> = Mutex::new(Vec::new());
/// a scenario of this process has hung: the runtime is damaged (a worker thread is dead, a coroutine is lost), the remaining
/// scenarios of the process cannot tell anything
static POISONED: AtomicBool = AtomicBool::new(false);
static POISON_TAG: Mutex<String> = Mutex::new(String::new());
fn poison(v: &[String]) {
    let tag = v.iter().find(|f| is_tagged(f)).map(|f| f[..3].to_string()).unwrap_or_else(|| "hang".into());
    *POISON_TAG.lock().unwrap() = tag;
    POISONED.store(true, Ordering::SeqCst);
}

/// wait for `done()`; gives up (false) when no hooked event has happened for `quiet_ms` while it is still false
fn wait_quiet<F: Fn() -> bool>(done: F, quiet_ms: u64) -> bool {
    let mut last = crate::rt::LIVE_EVENTS.load(Ordering::Relaxed);
    let mut quiet = Instant::now();
    loop {
        if done() {
            return true;
        }
        let n = crate::rt::LIVE_EVENTS.load(Ordering::Relaxed);
        if n != last {
            last = n;
            quiet = Instant::now();
        } else if quiet.elapsed() >= Duration::from_millis(quiet_ms) {
            return false;
        }
        std::thread::sleep(Duration::from_micros(200));
    }
}

/// the scenario that runs instead of a real one once the process is poisoned (it still creates a socket: every io trace shows the
/// socket-birth hook)
fn poisoned_run(fails: &Fails) -> Option<Vec<String>> {
    if !POISONED.load(Ordering::SeqCst) {
        return None;
    }
    drop(UdpSocket::bind("127.0.0.1:0"));
    fail(fails, format!("{}: skipped: an earlier scenario of this process hung, the runtime is damaged (see the first failure)", POISON_TAG.lock().unwrap()));
    Some(fails.lock().unwrap().clone())
}
/// wait until no hooked event has happened for a while (all kernel tails are through), then let everything go
fn settle() {
    {
        let t0 = Instant::now();
        let mut last = crate::rt::LIVE_EVENTS.load(Ordering::Relaxed);
        let mut quiet = Instant::now();
        while t0.elapsed() < Duration::from_millis(500) {
            std::thread::sleep(Duration::from_millis(1));
            let n = crate::rt::LIVE_EVENTS.load(Ordering::Relaxed);
            if n != last {
                last = n;
                quiet = Instant::now();
            } else if quiet.elapsed() >= Duration::from_millis(10) {
                break;
            }
        }
    }
}
fn scenario_end(fails: &Fails) -> Vec<String> {
    settle();
    RELEASE.store(true, Ordering::SeqCst);
    let ts: Vec<_> = std::mem::take(&mut *THREADS.lock().unwrap());
    for t in ts {
        let _ = t.join();
    }
    KEEP.lock().unwrap().clear();
    let socks: Vec<_> = std::mem::take(&mut *SOCKS.lock().unwrap());
    drop(socks);
    // the closes produce epoll events (HUP): let the selectors get through them inside this scenario
    settle();
    let mut v: Vec<String> = std::mem::take(&mut *RT_PANICS.lock().unwrap());
    v.extend(fails.lock().unwrap().iter().cloned());
    tag_consequences(v)
}
/// once a scenario has failed with one of the labelled findings, whatever else its oracles say is a consequence of it
fn is_tagged(f: &str) -> bool {
    f.starts_with("F26:") || f.starts_with("F27:") || f.starts_with("F28:")
}
fn tag_consequences(mut v: Vec<String>) -> Vec<String> {
    let tag = v.iter().find(|f| is_tagged(f)).map(|f| f[..3].to_string());
    if let Some(tag) = tag {
        for f in v.iter_mut() {
            if !is_tagged(f) {
                *f = format!("{tag}: (consequence) {f}");
            }
        }
    }
    v
}

enum Joiner {
    Co(coroutine::JoinHandle<()>),
    /// (finished, panicked)
    Th(Arc<(AtomicBool, AtomicBool)>),
}
impl Joiner {
    fn is_done(&self) -> bool {
        match self {
            Joiner::Co(h) => h.is_done(),
            Joiner::Th(st) => st.0.load(Ordering::SeqCst),
        }
    }
    /// Ok(()) | Err(is_cancel)
    fn join(self) -> Result<(), bool> {
        match self {
            Joiner::Co(h) => h.join().map_err(|p| is_cancel_payload(&p)),
            Joiner::Th(st) => {
                while !st.0.load(Ordering::SeqCst) {
                    std::thread::sleep(Duration::from_micros(50));
                }
                if st.1.load(Ordering::SeqCst) {
                    Err(false)
                } else {
                    Ok(())
                }
            }
        }
    }
}
/// the payload type of a Cancel panic, learnt from the crate's own `trigger_cancel_panic`
fn is_cancel_payload(p: &Box<dyn std::any::Any + Send>) -> bool {
    use std::sync::OnceLock;
    static CANCEL_TY: OnceLock<std::any::TypeId> = OnceLock::new();
    let ty = CANCEL_TY.get_or_init(|| {
        let r = std::panic::catch_unwind(|| {
            coroutine::trigger_cancel_panic();
        });
        match r {
            Err(p) => (*p).type_id(),
            Ok(_) => std::any::TypeId::of::<()>(),
        }
    });
    (**p).type_id() == *ty
}

/// a plain thread that is an actor; it stays alive (parked in a sleep loop) until the scenario has settled
fn spawn_thread<F: FnOnce() + Send + 'static>(name: &str, f: F) -> Joiner {
    let st = Arc::new((AtomicBool::new(false), AtomicBool::new(false)));
    let st2 = st.clone();
    let h = spawn_actor_thread(name, move || {
        let r = std::panic::catch_unwind(std::panic::AssertUnwindSafe(f));
        if r.is_err() {
            st2.1.store(true, Ordering::SeqCst);
        }
        st2.0.store(true, Ordering::SeqCst);
        while keepalive() && !RELEASE.load(Ordering::SeqCst) {
            std::thread::sleep(Duration::from_micros(200));
        }
    });
    THREADS.lock().unwrap().push(h);
    Joiner::Th(st)
}

/// an actor of the scenario: a named coroutine or a named plain thread
fn spawn_actor<F: FnOnce() + Send + 'static>(name: &str, is_co: bool, f: F) -> Joiner {
    if is_co {
        let h = unsafe { coroutine::Builder::new().name(name.into()).stack_size(0x4000).spawn(f).unwrap() };
        if keepalive() {
            KEEP.lock().unwrap().push(h.coroutine().clone());
        }
        Joiner::Co(h)
    } else {
        spawn_thread(name, f)
    }
}

fn quiet_panics() {
    use std::sync::Once;
    static ONCE: Once = Once::new();
    ONCE.call_once(|| {
        let loud = std::env::var("VH_LOUD").is_ok();
        let prev = std::panic::take_hook();
        std::panic::set_hook(Box::new(move |info| {
            // a panic inside the io code / the timer list is a panic of the runtime itself (the Cancel panic of a victim and the
            // panics of the harness' own actors have other locations)
            if let Some(l) = info.location() {
                let f = l.file();
                if f.contains("src/io/") || f.contains("mpsc_list") || f.contains("timeout_list") {
                    let msg = info
                        .payload()
                        .downcast_ref::<&str>()
                        .map(|s| s.to_string())
                        .or_else(|| info.payload().downcast_ref::<String>().cloned())
                        .unwrap_or_else(|| "?".into());
                    let t = std::thread::current();
                    RT_PANICS.lock().unwrap_or_else(|e| e.into_inner()).push(format!(
                        "F26: thread {:?} of the may runtime panicked: {msg} at {f}:{} (the coroutine it was about to run is lost)",
                        t.name().unwrap_or("?"),
                        l.line()
                    ));
                }
            }
            if loud {
                prev(info);
            }
        }))
    });
}

/// a connected byte stream of either kind
/// (boxed: the socket object must not move or die while a kernel tail may still look at its `IoData`, see the finding above)
pub enum Stream {
    Tcp(Box<TcpStream>),
    Unix(Box<UnixStream>),
}
impl Stream {
    fn read(&mut self, b: &mut [u8]) -> std::io::Result<usize> {
        match self {
            Stream::Tcp(s) => s.read(b),
            Stream::Unix(s) => s.read(b),
        }
    }
    fn write(&mut self, b: &[u8]) -> std::io::Result<usize> {
        match self {
            Stream::Tcp(s) => s.write(b),
            Stream::Unix(s) => s.write(b),
        }
    }
    fn shutdown_write(&self) {
        let _ = match self {
            Stream::Tcp(s) => s.shutdown(Shutdown::Write),
            Stream::Unix(s) => s.shutdown(Shutdown::Write),
        };
    }
    fn set_read_timeout(&self, d: Option<Duration>) {
        match self {
            Stream::Tcp(s) => s.set_read_timeout(d).unwrap(),
            Stream::Unix(s) => s.set_read_timeout(d).unwrap(),
        }
    }
    fn fd(&self) -> i32 {
        match self {
            Stream::Tcp(s) => s.as_raw_fd(),
            Stream::Unix(s) => s.as_raw_fd(),
        }
    }
}

/// how the two ends of connection `i` come into being
enum Ends {
    /// reader accepts on its own listener, writer connects (both are operations under test)
    Tcp(Box<TcpListener>),
    Unix(UnixStream, UnixStream),
}

fn sizes(rng: &mut Rng, total: usize, maxops: usize) -> Vec<usize> {
    // a short seeded pattern of sizes, repeated; floor keeps the number of operations bounded
    let floor = (total / maxops.max(1)).max(1);
    let menu = [1usize, 2, 7, 64, 100, 1000, 1460, 4096, 8192, 16384, 65536, 200_000];
    let k = 1 + rng.below(4) as usize;
    (0..k).map(|_| menu[rng.below(menu.len() as u64) as usize].max(floor)).collect()
}

/// connect with the blocking std call and hand the socket to may (no may `connect` operation involved)
fn std_connect(a: std::net::SocketAddr) -> std::io::Result<TcpStream> {
    use std::os::unix::io::{FromRawFd, IntoRawFd};
    std::net::TcpStream::connect(a).map(|s| unsafe { TcpStream::from_raw_fd(s.into_raw_fd()) })
}

/// the perturbation level `vh live` will draw for this scenario (it uses the scenario's generator right after `build`)
fn predicted_perturb(rng: &Rng) -> u64 {
    let mut r2 = Rng(rng.0);
    [0u64, 100, 300, 600][r2.below(4) as usize]
}

/// a connected loopback TCP pair, set up by the scenario's main actor and a helper actor thread (not under test)
fn tcp_pair(l: &TcpListener, a: std::net::SocketAddr) -> (TcpStream, TcpStream) {
    let slot = Arc::new(Mutex::new(None));
    let s2 = slot.clone();
    let c = spawn_thread("setup", move || {
        *s2.lock().unwrap() = Some(std_connect(a).unwrap());
    });
    let (s, _) = l.accept().unwrap();
    let _ = c.join();
    let c = slot.lock().unwrap().take().unwrap();
    (s, c)
}

// ---------------------------------------------------------------- io_stream

struct ConnPlan {
    len: usize,
    wsizes: Vec<usize>,
    rsizes: Vec<usize>,
    w_co: bool,
    r_co: bool,
    sndbuf: Option<i32>,
    rcvbuf: Option<i32>,
    w_delay_us: u64,
    r_delay_us: u64,
    w_gap_us: u64,
    r_gap_us: u64,
}

fn plan_conn(rng: &mut Rng, tier: u32) -> ConnPlan {
    let maxops = if tier > 0 { 300 } else { 60 };
    let len = match rng.below(6) {
        0 => 0,
        1 => 1 + rng.below(64) as usize,
        2 => 1 + rng.below(5000) as usize,
        3 => 1 + rng.below(70_000) as usize,
        _ => {
            if tier > 0 {
                1 + rng.below(600_000) as usize
            } else {
                1 + rng.below(150_000) as usize
            }
        }
    };
    ConnPlan {
        len,
        wsizes: sizes(rng, len, maxops),
        rsizes: sizes(rng, len, maxops),
        w_co: rng.chance(650),
        r_co: rng.chance(650),
        sndbuf: if rng.chance(600) { Some([2048, 4096, 16384][rng.below(3) as usize]) } else { None },
        rcvbuf: if rng.chance(600) { Some([2048, 4096, 16384][rng.below(3) as usize]) } else { None },
        w_delay_us: [0, 0, 200, 1500][rng.below(4) as usize],
        r_delay_us: [0, 0, 200, 1500][rng.below(4) as usize],
        w_gap_us: [0, 0, 0, 50, 300][rng.below(5) as usize],
        r_gap_us: [0, 0, 0, 50, 300][rng.below(5) as usize],
    }
}

/// writer side of one connection: returns when everything was accepted by the kernel and the write half is shut down
fn run_writer(mut s: Stream, data: &[u8], p_sizes: &[usize], gap_us: u64, shut: &AtomicBool, tag: &str, fails: &Fails) {
    let mut off = 0usize;
    let mut k = 0usize;
    while off < data.len() {
        let want = p_sizes[k % p_sizes.len()].min(data.len() - off);
        k += 1;
        call("io.write", want as u64, 0);
        let r = s.write(&data[off..off + want]);
        ret("io.write", rc(&r));
        match r {
            Ok(0) => {
                fail(fails, format!("{tag}: write of {want} bytes returned 0"));
                break;
            }
            Ok(n) if n > want => {
                fail(fails, format!("{tag}: write accepted {n} > {want} offered bytes"));
                break;
            }
            Ok(n) => off += n,
            Err(e) => {
                fail(fails, format!("{tag}: write failed at offset {off}: {e:?}"));
                break;
            }
        }
        if gap_us > 0 {
            std::thread::sleep(Duration::from_micros(gap_us));
        }
    }
    shut.store(true, Ordering::SeqCst);
    call("io.shutdown", 0, 0);
    s.shutdown_write();
    ret("io.shutdown", 0);
    park_sock(s);
}

/// reader side: reads until EOF, checks the stream oracle
fn run_reader(mut s: Stream, data: &[u8], p_sizes: &[usize], gap_us: u64, shut: &AtomicBool, tag: &str, fails: &Fails) {
    let mut got: Vec<u8> = Vec::with_capacity(data.len());
    let maxb = *p_sizes.iter().max().unwrap();
    let mut buf = vec![0u8; maxb];
    let mut k = 0usize;
    loop {
        let bs = p_sizes[k % p_sizes.len()];
        k += 1;
        call("io.read", bs as u64, 0);
        let r = s.read(&mut buf[..bs]);
        ret("io.read", rc(&r));
        match r {
            Ok(0) => {
                // end of stream: only after the writer shut down and everything was delivered
                if !shut.load(Ordering::SeqCst) {
                    fail(fails, format!("{tag}: read returned 0 before the writer shut down (got {} of {})", got.len(), data.len()));
                }
                break;
            }
            Ok(n) if n > bs => {
                fail(fails, format!("{tag}: read returned {n} > buffer size {bs}"));
                break;
            }
            Ok(n) => {
                got.extend_from_slice(&buf[..n]);
                if got.len() > data.len() {
                    fail(fails, format!("{tag}: received {} bytes, only {} were sent", got.len(), data.len()));
                    break;
                }
            }
            Err(e) => {
                fail(fails, format!("{tag}: read failed after {} bytes: {e:?}", got.len()));
                break;
            }
        }
        if gap_us > 0 {
            std::thread::sleep(Duration::from_micros(gap_us));
        }
    }
    if got.len() != data.len() {
        fail(fails, format!("{tag}: stream truncated: received {} of {} bytes", got.len(), data.len()));
    } else if got != data {
        let at = got.iter().zip(data.iter()).position(|(a, b)| a != b).unwrap_or(0);
        fail(fails, format!("{tag}: stream corrupted or reordered: first difference at byte {at} of {}", data.len()));
    }
    park_sock(s);
}

/// start writer and reader of one planned connection; returns their joiners
fn start_conn(i: usize, seed: u64, tcp: bool, may_connect: bool, p: ConnPlan, fails: &Fails, prefix: &str) -> Vec<(String, Joiner)> {
    let data = Arc::new(payload(seed, i as u64, p.len));
    let shut = Arc::new(AtomicBool::new(false));
    let ends = if tcp {
        let l = Box::new(TcpListener::bind("127.0.0.1:0").unwrap());
        if let Some(b) = p.rcvbuf {
            set_buf(l.as_raw_fd(), SO_RCVBUF, b);
        }
        Ends::Tcp(l)
    } else {
        let (a, b) = UnixStream::pair().unwrap();
        Ends::Unix(a, b)
    };
    let (wend, rend): (Box<dyn FnOnce() -> Option<Stream> + Send>, Box<dyn FnOnce() -> Option<Stream> + Send>) = match ends {
        Ends::Tcp(l) => {
            let addr = l.local_addr().unwrap();
            let (f1, f2) = (fails.clone(), fails.clone());
            let (t1, t2) = (format!("{prefix}tx{i}"), format!("{prefix}rx{i}"));
            (
                Box::new(move || {
                    // may's connect keeps its IoData inside a temporary on the caller's stack, which its own kernel tail may
                    // still read after the connect returned (same finding): it is an operation under test only in
                    // scenarios that run without perturbation; otherwise the blocking std connect is used
                    let r = if may_connect {
                        call("io.connect", 0, 0);
                        let r = TcpStream::connect(addr);
                        ret("io.connect", if r.is_ok() { 0 } else { (-4i64) as u64 });
                        r
                    } else {
                        std_connect(addr)
                    };
                    match r {
                        Ok(s) => Some(Stream::Tcp(Box::new(s))),
                        Err(e) => {
                            fail(&f1, format!("{t1}: connect failed: {e:?}"));
                            None
                        }
                    }
                }),
                Box::new(move || {
                    call("io.accept", 0, 0);
                    let r = l.accept();
                    ret("io.accept", if r.is_ok() { 0 } else { (-4i64) as u64 });
                    park_sock(l);
                    match r {
                        Ok((s, _)) => Some(Stream::Tcp(Box::new(s))),
                        Err(e) => {
                            fail(&f2, format!("{t2}: accept failed: {e:?}"));
                            None
                        }
                    }
                }),
            )
        }
        Ends::Unix(a, b) => (Box::new(move || Some(Stream::Unix(Box::new(a)))), Box::new(move || Some(Stream::Unix(Box::new(b))))),
    };
    let mut js = vec![];
    {
        let (data, shut, fails) = (data.clone(), shut.clone(), fails.clone());
        let (sizes, gap, delay, sndbuf) = (p.wsizes.clone(), p.w_gap_us, p.w_delay_us, p.sndbuf);
        let name = format!("{prefix}tx{i}");
        let tag = name.clone();
        js.push((
            name.clone(),
            spawn_actor(&name, p.w_co, move || {
                if delay > 0 {
                    std::thread::sleep(Duration::from_micros(delay));
                }
                match wend() {
                    Some(s) => {
                        if let Some(b) = sndbuf {
                            set_buf(s.fd(), SO_SNDBUF, b);
                        }
                        run_writer(s, &data, &sizes, gap, &shut, &tag, &fails)
                    }
                    None => shut.store(true, Ordering::SeqCst),
                }
            }),
        ));
    }
    {
        let (data, shut, fails) = (data.clone(), shut.clone(), fails.clone());
        let (sizes, gap, delay, rcvbuf) = (p.rsizes.clone(), p.r_gap_us, p.r_delay_us, p.rcvbuf);
        let name = format!("{prefix}rx{i}");
        let tag = name.clone();
        js.push((
            name.clone(),
            spawn_actor(&name, p.r_co, move || {
                if delay > 0 {
                    std::thread::sleep(Duration::from_micros(delay));
                }
                if let Some(s) = rend() {
                    if let (Some(b), Stream::Unix(_)) = (rcvbuf, &s) {
                        set_buf(s.fd(), SO_RCVBUF, b);
                    }
                    run_reader(s, &data, &sizes, gap, &shut, &tag, &fails)
                }
            }),
        ));
    }
    js
}

fn join_all(js: Vec<(String, Joiner)>, fails: &Fails) {
    for (n, j) in js {
        if j.join().is_err() {
            fail(fails, format!("actor {n} panicked"));
        }
    }
}

struct DgramPlan {
    udp: bool,
    msgs: Vec<usize>,
    s_co: bool,
    r_co: bool,
    s_gap_us: u64,
    r_gap_us: u64,
}

fn run_dgram(seed: u64, p: DgramPlan, fails: &Fails) {
    let total: usize = p.msgs.iter().sum();
    let data = Arc::new(payload(seed, 77, total.max(1)));
    let msgs = Arc::new(p.msgs.clone());
    enum S {
        Udp(Box<UdpSocket>, std::net::SocketAddr),
        Unix(Box<UnixDatagram>),
    }
    enum R {
        Udp(Box<UdpSocket>),
        Unix(Box<UnixDatagram>),
    }
    let (s, r) = if p.udp {
        let r = Box::new(UdpSocket::bind("127.0.0.1:0").unwrap());
        let a = r.local_addr().unwrap();
        (S::Udp(Box::new(UdpSocket::bind("127.0.0.1:0").unwrap()), a), R::Udp(r))
    } else {
        let (a, b) = UnixDatagram::pair().unwrap();
        (S::Unix(Box::new(a)), R::Unix(Box::new(b)))
    };
    let mut js = vec![];
    {
        let (data, msgs, fails, gap) = (data.clone(), msgs.clone(), fails.clone(), p.s_gap_us);
        js.push((
            "ds".to_string(),
            spawn_actor("ds", p.s_co, move || {
                let mut off = 0;
                for (k, &m) in msgs.iter().enumerate() {
                    call("io.send", m as u64, 0);
                    let r = match &s {
                        S::Udp(s, a) => s.send_to(&data[off..off + m], *a),
                        S::Unix(s) => s.send(&data[off..off + m]),
                    };
                    ret("io.send", rc(&r));
                    match r {
                        Ok(n) if n == m => {}
                        other => fail(&fails, format!("ds: datagram #{k} of {m} bytes: send returned {other:?}")),
                    }
                    off += m;
                    if gap > 0 {
                        std::thread::sleep(Duration::from_micros(gap));
                    }
                }
                park_sock(s);
            }),
        ));
    }
    {
        let (data, msgs, fails, gap) = (data.clone(), msgs.clone(), fails.clone(), p.r_gap_us);
        js.push((
            "dr".to_string(),
            spawn_actor("dr", p.r_co, move || {
                let mut buf = vec![0u8; 4096];
                let mut off = 0;
                for (k, &m) in msgs.iter().enumerate() {
                    call("io.recv", buf.len() as u64, 0);
                    let r = match &r {
                        R::Udp(s) => s.recv_from(&mut buf).map(|x| x.0),
                        R::Unix(s) => s.recv(&mut buf),
                    };
                    ret("io.recv", rc(&r));
                    match r {
                        Ok(n) => {
                            if n != m {
                                fail(&fails, format!("dr: datagram #{k}: boundary not kept, received {n} bytes, sent {m}"));
                                break;
                            }
                            if buf[..n] != data[off..off + m] {
                                fail(&fails, format!("dr: datagram #{k} of {m} bytes: content differs"));
                                break;
                            }
                        }
                        Err(e) => {
                            fail(&fails, format!("dr: datagram #{k}: recv failed: {e:?}"));
                            break;
                        }
                    }
                    off += m;
                    if gap > 0 {
                        std::thread::sleep(Duration::from_micros(gap));
                    }
                }
                park_sock(r);
            }),
        ));
    }
    join_all(js, fails);
}

pub fn build_stream(rng: &mut Rng, tier: u32) -> LiveBuilt {
    let seed = rng.next();
    let dgram = rng.chance(250);
    if dgram {
        let udp = rng.chance(500);
        let n = 1 + rng.below(if tier > 0 { 40 } else { 12 }) as usize;
        let msgs: Vec<usize> = (0..n)
            .map(|_| match rng.below(4) {
                0 => rng.below(4) as usize,
                1 => 1 + rng.below(100) as usize,
                _ => 1 + rng.below(1400) as usize,
            })
            .collect();
        let p = DgramPlan {
            udp,
            msgs,
            s_co: rng.chance(650),
            r_co: rng.chance(650),
            s_gap_us: [0, 0, 100, 400][rng.below(4) as usize],
            r_gap_us: [0, 0, 100, 400][rng.below(4) as usize],
        };
        let header = format!(
            "family=io_stream kind={} msgs={} sender={} receiver={}",
            if udp { "udp" } else { "unixdgram" },
            n,
            if p.s_co { "co" } else { "thread" },
            if p.r_co { "co" } else { "thread" }
        );
        return LiveBuilt {
            header: format!("{header} {}", source_flags()),
            filter: FILTER.to_vec(),
            hang_ms: 4000,
            run: Box::new(move || {
                scenario_begin();
                let fails: Fails = Arc::new(Mutex::new(vec![]));
                run_dgram(seed, p, &fails);
                scenario_end(&fails)
            }),
        };
    }
    let tcp = rng.chance(500);
    let conns = 1 + rng.below(if tier > 0 { 4 } else { 2 }) as usize;
    let plans: Vec<ConnPlan> = (0..conns).map(|_| plan_conn(rng, tier)).collect();
    let total: usize = plans.iter().map(|p| p.len).sum();
    let _ = predicted_perturb(rng);
    let may_connect = true;
    let header = format!(
        "family=io_stream kind={} conns={} bytes={} connect={} callers={}",
        if tcp { "tcp" } else { "unix" },
        conns,
        total,
        if may_connect { "may" } else { "std" },
        plans.iter().map(|p| format!("{}{}", if p.w_co { 'c' } else { 't' }, if p.r_co { 'c' } else { 't' })).collect::<Vec<_>>().join("-")
    );
    LiveBuilt {
        header: format!("{header} {}", source_flags()),
        filter: FILTER.to_vec(),
        hang_ms: 4000,
        run: Box::new(move || {
            scenario_begin();
            let fails: Fails = Arc::new(Mutex::new(vec![]));
            let mut js = vec![];
            for (i, p) in plans.into_iter().enumerate() {
                js.extend(start_conn(i + 1, seed, tcp, may_connect, p, &fails, ""));
            }
            join_all(js, &fails);
            scenario_end(&fails)
        }),
    }
}

// ---------------------------------------------------------------- io_timeout

#[derive(Clone, Copy, Debug)]
enum TOp {
    /// read with a time-out of `us` microseconds (whole and non-integral milliseconds; sub-millisecond in the race family:
    /// `AtomicDuration` rounds up since the F2 fix), nothing is sent: must fail with TimedOut, not before the configured duration
    Idle { us: u64 },
    /// read with a long time-out `ms`; the peer sends `n` bytes after `delay_us`: data (or, on a slow machine, a
    /// time-out that is not early – then the data must come out of a later read)
    Fed { ms: u64, delay_us: u64, n: usize },
    /// read with NO time-out (or a much longer one, `ms`) right after a timed operation; the peer sends after
    /// `delay_us`, which is longer than the earlier time-out: must not fail / return early because of the old timer
    After { ms: Option<u64>, delay_us: u64, n: usize },
}

/// `race` = family `io_timeout_race`: time-outs of 0.3–3 ms only, which the perturbation of the hooked operations around
/// `add_io_timer` / `co.store` / the re-check can exceed – the timer fires while the wait it belongs to is being set up, completed or
/// already over (findings 2 and 5: time-out armed before publication; timer-handle race, `F26:`). The plain family mixes these with
/// time-outs up to 64 ms, whole and non-integral milliseconds.
pub fn build_timeout(rng: &mut Rng, tier: u32, race: bool) -> LiveBuilt {
    let seed = rng.next();
    let kind = rng.below(3); // 0 tcp, 1 unix stream, 2 udp
    let r_co = rng.chance(700);
    let nops = 2 + rng.below(if tier > 0 { 6 } else { 3 }) as usize;
    let mut ops = vec![];
    let mut last_ms = 0u64;
    // race family, 2 of 3 scenarios: targeted stalls (see `STALL_TAIL_US`); `inject` 1 = the timer fires before the coroutine is
    // published, 2 = in addition the handler is held before its `co.take`, and the scenario begins with a 1 ms `idle` followed by a read
    // WITHOUT a time-out that is fed late: a timer that leaks out of the first read ends the second one
    let inject = if race { rng.below(3) } else { 0 };
    let stall_tail_us = 1100 + rng.below(900);
    let stall_handler_us = 2000 + rng.below(3000);
    if inject == 2 {
        ops.push(TOp::Idle { us: [300u64, 999, 1000][rng.below(3) as usize] });
        ops.push(TOp::After { ms: None, delay_us: 3000 + rng.below(3000), n: 1 + rng.below(300) as usize });
    }
    for _ in 0..nops {
        let small = if race {
            [300u64, 999, 1000, 1500, 2000, 3000][rng.below(6) as usize]
        } else {
            let (i, j) = (rng.below(12) as usize, rng.below(7) as usize);
            let us = [300u64, 700, 1000, 2000, 3000, 5000, 8000, 13000, 20000, 33000, 50000, 64000][i];
            if us < 1000 {
                us
            } else {
                us + [0u64, 0, 0, 1, 250, 500, 999][j]
            }
        };
        let op = match rng.below(if last_ms > 0 { 4 } else { 3 }) {
            0 | 1 => TOp::Idle { us: small },
            2 => TOp::Fed { ms: 400 + rng.below(300), delay_us: rng.below(3000), n: 1 + rng.below(300) as usize },
            _ => TOp::After {
                ms: if rng.chance(500) { None } else { Some(last_ms * 4 + 400) },
                delay_us: last_ms * 1000 * 2 + rng.below(4000),
                n: 1 + rng.below(300) as usize,
            },
        };
        last_ms = match op {
            TOp::Idle { us } => us.div_ceil(1000),
            TOp::Fed { ms, .. } => ms.min(20),
            TOp::After { .. } => 0,
        };
        ops.push(op);
    }
    let header = format!(
        "family={} inject={inject} kind={} reader={} ops={}",
        if race { "io_timeout_race" } else { "io_timeout" },
        ["tcp", "unix", "udp"][kind as usize],
        if r_co { "co" } else { "thread" },
        ops.iter()
            .map(|o| match o {
                TOp::Idle { us } => format!("idle{us}us"),
                TOp::Fed { ms, .. } => format!("fed{ms}"),
                TOp::After { ms, .. } => format!("after{}", ms.map(|m| m.to_string()).unwrap_or("none".into())),
            })
            .collect::<Vec<_>>()
            .join(",")
    );
    LiveBuilt {
        header: format!("{header} {}", source_flags()),
        filter: FILTER.to_vec(),
        hang_ms: 8000,
        run: Box::new(move || {
            scenario_begin();
            let fails: Fails = Arc::new(Mutex::new(vec![]));
            if let Some(v) = poisoned_run(&fails) {
                return v;
            }
            if inject >= 1 {
                STALL_TAIL_US.store(stall_tail_us, Ordering::Relaxed);
            }
            if inject >= 2 {
                STALL_HANDLER_US.store(stall_handler_us, Ordering::Relaxed);
            }
            // the two ends
            enum E {
                S(Stream),
                U(Box<UdpSocket>),
            }
            let (rd, wr, dest) = match kind {
                0 => {
                    let l = Box::new(TcpListener::bind("127.0.0.1:0").unwrap());
                    let a = l.local_addr().unwrap();
                    let (s, c) = tcp_pair(&l, a);
                    park_sock(l);
                    (E::S(Stream::Tcp(Box::new(s))), E::S(Stream::Tcp(Box::new(c))), None)
                }
                1 => {
                    let (a, b) = UnixStream::pair().unwrap();
                    (E::S(Stream::Unix(Box::new(a))), E::S(Stream::Unix(Box::new(b))), None)
                }
                _ => {
                    let r = Box::new(UdpSocket::bind("127.0.0.1:0").unwrap());
                    let a = r.local_addr().unwrap();
                    (E::U(r), E::U(Box::new(UdpSocket::bind("127.0.0.1:0").unwrap())), Some(a))
                }
            };
            let data = Arc::new(payload(seed, 5, 4096));
            // the feeder is told what to send and when; a plain thread, `feed.0` = op index it may serve
            let go = Arc::new(AtomicUsize::new(usize::MAX));
            let served = Arc::new(AtomicUsize::new(0));
            let stop = Arc::new(AtomicBool::new(false));
            let feeder = {
                let (go, served, stop, ops, data, fails) = (go.clone(), served.clone(), stop.clone(), ops.clone(), data.clone(), fails.clone());
                let mut wr = wr;
                spawn_thread("feed", move || {
                    let mut next = 0usize;
                    while !stop.load(Ordering::SeqCst) {
                        let g = go.load(Ordering::SeqCst);
                        if g == usize::MAX || g < next {
                            std::thread::sleep(Duration::from_micros(100));
                            continue;
                        }
                        // every operation that is fed is served, in order – also when this thread was held up so long that the
                        // reader has meanwhile timed out and moved on (the data then comes out of a later read, see the reader)
                        let g = next;
                        next += 1;
                        let (delay_us, n) = match ops[g] {
                            TOp::Fed { delay_us, n, .. } | TOp::After { delay_us, n, .. } => (delay_us, n),
                            _ => continue,
                        };
                        std::thread::sleep(Duration::from_micros(delay_us));
                        call("io.feed", n as u64, 0);
                        let r = match &mut wr {
                            E::S(s) => s.write(&data[..n]),
                            E::U(s) => s.send_to(&data[..n], dest.unwrap()),
                        };
                        ret("io.feed", rc(&r));
                        if !matches!(r, Ok(m) if m == n) {
                            fail(&fails, format!("feed: write of {n} bytes returned {r:?}"));
                        }
                        served.store(g + 1, Ordering::SeqCst);
                    }
                    park_sock(wr);
                })
            };
            let reader = {
                let (go, ops, data, fails) = (go.clone(), ops.clone(), data.clone(), fails.clone());
                let mut rd = rd;
                spawn_actor("rd", r_co, move || {
                    let mut buf = vec![0u8; 4096];
                    // what was handed to the feeder and has not come out of a read yet
                    let mut owed: std::collections::VecDeque<usize> = Default::default(); // datagram sizes (udp)
                    let mut expect: Vec<u8> = vec![]; // byte stream fed so far (tcp / unix)
                    let mut cur = 0usize;
                    let is_udp = matches!(rd, E::U(_));
                    for (k, op) in ops.iter().enumerate() {
                        let (us, feeds) = match *op {
                            TOp::Idle { us } => (Some(us), None),
                            TOp::Fed { ms, n, .. } => (Some(ms * 1000), Some(n)),
                            TOp::After { ms, n, .. } => (ms.map(|m| m * 1000), Some(n)),
                        };
                        let d = us.map(Duration::from_micros);
                        match &rd {
                            E::S(s) => s.set_read_timeout(d),
                            E::U(s) => s.set_read_timeout(d).unwrap(),
                        }
                        if let Some(n) = feeds {
                            owed.push_back(n);
                            expect.extend_from_slice(&data[..n]);
                            go.store(k, Ordering::SeqCst);
                        }
                        // (an earlier fed operation may have timed out on a slow machine: its data can arrive now, so
                        // "nothing arrives" is judged by what is owed, not by the kind of this operation)
                        let t0 = Instant::now();
                        call("io.tread", us.unwrap_or(0), 0);
                        let r = match &mut rd {
                            E::S(s) => s.read(&mut buf),
                            E::U(s) => s.recv_from(&mut buf).map(|x| x.0),
                        };
                        let el = t0.elapsed();
                        ret("io.tread", rc(&r));
                        match r {
                            Err(e) if e.kind() == std::io::ErrorKind::TimedOut => match d {
                                None => fail(&fails, format!("F26: rd: op #{k} {op:?}: read WITHOUT a time-out failed with TimedOut after {el:?} (timer of an earlier wait)")),
                                Some(d) if el < d => {
                                    fail(&fails, format!("rd: op #{k} {op:?}: TimedOut after {el:?}, earlier than the configured {d:?}"))
                                }
                                Some(_) => {}
                            },
                            Err(e) => fail(&fails, format!("rd: op #{k} {op:?}: unexpected error {e:?}")),
                            Ok(n) if is_udp => match owed.pop_front() {
                                None => fail(&fails, format!("rd: op #{k} {op:?}: received a datagram of {n} bytes although nothing was sent")),
                                Some(m) => {
                                    if n != m || buf[..n] != data[..m] {
                                        fail(&fails, format!("rd: op #{k} {op:?}: datagram of {m} bytes arrived as {n} bytes / wrong content"));
                                    }
                                }
                            },
                            Ok(n) => {
                                if n == 0 {
                                    fail(&fails, format!("rd: op #{k} {op:?}: read returned 0 although the peer is open"));
                                } else if cur + n > expect.len() {
                                    fail(&fails, format!("rd: op #{k} {op:?}: read returned {n} bytes, only {} were outstanding", expect.len() - cur));
                                } else if buf[..n] != expect[cur..cur + n] {
                                    fail(&fails, format!("rd: op #{k} {op:?}: stream content differs at byte {cur}"));
                                }
                                cur = (cur + n).min(expect.len());
                            }
                        }
                    }
                    park_sock(rd);
                })
            };
            // every operation of the reader either has a time-out (<= 700 ms) or is fed: it ends on its own. If nothing at all has
            // happened for 6 s it never will (the time-out was lost, or the thread that was to resume the reader has died)
            if !wait_quiet(|| reader.is_done(), 6000) {
                clear_stalls();
                stop.store(true, Ordering::SeqCst);
                let mut v: Vec<String> = std::mem::take(&mut *RT_PANICS.lock().unwrap());
                v.push("F26: hang: the reader never came back from a read with a time-out / with data fed (no hooked event for 6 s)".into());
                v.extend(fails.lock().unwrap().iter().cloned());
                poison(&v);
                return tag_consequences(v);
            }
            if reader.join().is_err() {
                fail(&fails, "actor rd panicked".into());
            }
            clear_stalls();
            stop.store(true, Ordering::SeqCst);
            let _ = feeder.join();
            let _ = served;
            scenario_end(&fails)
        }),
    }
}

// ---------------------------------------------------------------- io_cancel

pub fn build_cancel(rng: &mut Rng, tier: u32) -> LiveBuilt {
    let seed = rng.next();
    // 0 tcp read, 1 unix read, 2 tcp accept, 3 two sockets: a read on socket A that blocks and is served, then a read on socket B
    // that only the cancel can end (finding 6, `F27:`: on a tree without `fix: io-stale-set_io` the late kernel tail of the read on A
    // re-registers A for cancel AFTER the read on B has registered B: the canceller then looks at the wrong socket)
    let what = rng.below(4);
    let feed_delay_us = [0u64, 0, 20, 100, 400][rng.below(5) as usize]; // two sockets: when A is fed, after the victim has started
    // two sockets: the registration for cancel of the read on A is held for this long (`STALL_SETIO_US`), 2 of 3 scenarios
    let stall_setio_us = if rng.chance(667) { 800 + rng.below(2500) } else { 0 };
    let with_timeout = rng.chance(300); // the victim's read also has a (long) time-out armed
    let cancel_delay_us = [0u64, 0, 30, 100, 300, 1000, 3000][rng.below(7) as usize];
    let pre_bytes = if rng.chance(400) { 1 + rng.below(2000) as usize } else { 0 }; // data the victim reads before it blocks
    let others = rng.below(if tier > 0 { 3 } else { 2 }) as usize;
    let other_tcp = rng.chance(500);
    let other_plans: Vec<ConnPlan> = (0..others).map(|_| plan_conn(rng, tier)).collect();
    let canceller_thread = rng.chance(500);
    let may_connect = true;
    let header = format!(
        "family=io_cancel victim={} timeout={} delay_us={} pre={} others={} stall={stall_setio_us}",
        ["tcp_read", "unix_read", "tcp_accept", "two_sock"][what as usize],
        with_timeout as u8,
        cancel_delay_us,
        pre_bytes,
        others
    );
    LiveBuilt {
        header: format!("{header} {}", source_flags()),
        filter: FILTER.to_vec(),
        hang_ms: 7000,
        run: Box::new(move || {
            scenario_begin();
            let fails: Fails = Arc::new(Mutex::new(vec![]));
            if let Some(v) = poisoned_run(&fails) {
                return v;
            }
            // unaffected traffic on other connections
            let mut js = vec![];
            for (i, p) in other_plans.into_iter().enumerate() {
                js.extend(start_conn(i + 1, seed, other_tcp, may_connect, p, &fails, "o"));
            }
            let data = Arc::new(payload(seed, 9, pre_bytes.max(1)));
            let entered = Arc::new(AtomicBool::new(false));
            let phase2 = Arc::new(AtomicBool::new(false));
            let reached_end = Arc::new(AtomicBool::new(false));
            let dropped = Arc::new(AtomicUsize::new(0));
            // what the victim owns: its destructor must run exactly once at the cancel; the close of the socket itself is
            // deferred by the harness until the run has settled (the victim's own kernel tail may still read the socket
            // object: same finding as above), and only then the peer must see the end of the stream
            let deferred: Arc<Mutex<Vec<Box<dyn std::any::Any + Send>>>> = Arc::new(Mutex::new(vec![]));
            struct Owned<T: Send + 'static>(Option<T>, Arc<AtomicUsize>, Arc<Mutex<Vec<Box<dyn std::any::Any + Send>>>>);
            impl<T: Send + 'static> Drop for Owned<T> {
                fn drop(&mut self) {
                    self.1.fetch_add(1, Ordering::SeqCst);
                    if let Some(t) = self.0.take() {
                        if keepalive() {
                            self.2.lock().unwrap().push(Box::new(t));
                        }
                    }
                }
            }
            // the victim and the peer end that observes the close
            enum Peer {
                S(Stream),
                Addr(#[allow(dead_code)] std::net::SocketAddr),
            }
            let mut peer_b: Option<Stream> = None;
            let (victim, mut peer): (coroutine::JoinHandle<()>, Peer) = match what {
                3 => {
                    let (a, pa) = UnixStream::pair().unwrap();
                    let (b, pb) = UnixStream::pair().unwrap();
                    peer_b = Some(Stream::Unix(Box::new(pb)));
                    let need = pre_bytes.max(1);
                    let (entered, phase2, reached_end, fails, data) = (entered.clone(), phase2.clone(), reached_end.clone(), fails.clone(), data.clone());
                    let mut owned = Owned(Some((Box::new(a), Box::new(b))), dropped.clone(), deferred.clone());
                    let h = unsafe {
                        coroutine::Builder::new().name("victim".into()).stack_size(0x4000).spawn(move || {
                            let (a, b) = owned.0.as_mut().unwrap();
                            if with_timeout {
                                b.set_read_timeout(Some(Duration::from_millis(1500))).unwrap();
                            }
                            let mut buf = vec![0u8; 4096];
                            let mut got = 0usize;
                            STALL_SETIO_US.store(stall_setio_us, Ordering::Relaxed);
                            entered.store(true, Ordering::SeqCst);
                            while got < need {
                                call("io.read", buf.len() as u64, 0);
                                let r = a.read(&mut buf);
                                ret("io.read", rc(&r));
                                match r {
                                    Ok(n) if n > 0 && got + n <= need && buf[..n] == data[got..got + n] => got += n,
                                    other => {
                                        fail(&fails, format!("victim: first socket: read returned {other:?} at {got} of {need} bytes"));
                                        break;
                                    }
                                }
                            }
                            phase2.store(true, Ordering::SeqCst);
                            call("io.read", buf.len() as u64, 0);
                            let r = b.read(&mut buf);
                            ret("io.read", rc(&r));
                            // nothing is ever sent on B and its peer stays open: only the cancel can end this read
                            fail(&fails, format!("F27: victim: blocked read on the second socket returned {r:?} instead of being cancelled"));
                            reached_end.store(true, Ordering::SeqCst);
                        })
                    }
                    .unwrap();
                    (h, Peer::S(Stream::Unix(Box::new(pa))))
                }
                0 | 1 => {
                    let (v, p) = if what == 0 {
                        let l = Box::new(TcpListener::bind("127.0.0.1:0").unwrap());
                        let a = l.local_addr().unwrap();
                        let (s, c) = tcp_pair(&l, a);
                        park_sock(l);
                        (Stream::Tcp(Box::new(s)), Stream::Tcp(Box::new(c)))
                    } else {
                        let (a, b) = UnixStream::pair().unwrap();
                        (Stream::Unix(Box::new(a)), Stream::Unix(Box::new(b)))
                    };
                    let (entered, reached_end, fails, data) = (entered.clone(), reached_end.clone(), fails.clone(), data.clone());
                    let mut owned = Owned(Some(v), dropped.clone(), deferred.clone());
                    let h = unsafe {
                        coroutine::Builder::new().name("victim".into()).stack_size(0x4000).spawn(move || {
                            let s = owned.0.as_mut().unwrap();
                            if with_timeout {
                                s.set_read_timeout(Some(Duration::from_millis(1500)));
                            }
                            let mut buf = vec![0u8; 4096];
                            let mut got = 0usize;
                            entered.store(true, Ordering::SeqCst);
                            loop {
                                call("io.read", buf.len() as u64, 0);
                                let r = s.read(&mut buf);
                                ret("io.read", rc(&r));
                                match r {
                                    Ok(n) if n > 0 => {
                                        if got + n > pre_bytes || buf[..n] != data[got..got + n] {
                                            fail(&fails, format!("victim: wrong data before the cancel ({n} bytes at {got})"));
                                        }
                                        got += n;
                                    }
                                    other => {
                                        // nothing more is ever sent and the peer stays open: only the cancel can end this read
                                        fail(&fails, format!("victim: blocked read returned {other:?} instead of being cancelled"));
                                        break;
                                    }
                                }
                            }
                            reached_end.store(true, Ordering::SeqCst);
                        })
                    }
                    .unwrap();
                    (h, Peer::S(p))
                }
                _ => {
                    let l = Box::new(TcpListener::bind("127.0.0.1:0").unwrap());
                    let a = l.local_addr().unwrap();
                    let (entered, reached_end, fails) = (entered.clone(), reached_end.clone(), fails.clone());
                    let owned = Owned(Some(l), dropped.clone(), deferred.clone());
                    let h = unsafe {
                        coroutine::Builder::new().name("victim".into()).stack_size(0x4000).spawn(move || {
                            let l = owned.0.as_ref().unwrap();
                            entered.store(true, Ordering::SeqCst);
                            call("io.accept", 0, 0);
                            let r = l.accept();
                            ret("io.accept", if r.is_ok() { 0 } else { (-4i64) as u64 });
                            fail(&fails, format!("victim: blocked accept returned (ok={}) instead of being cancelled", r.is_ok()));
                            reached_end.store(true, Ordering::SeqCst);
                        })
                    }
                    .unwrap();
                    (h, Peer::Addr(a))
                }
            };
            // data the victim consumes before it blocks (two sockets: fed once the victim is on its way into the read on A)
            let pre_bytes = if what == 3 { pre_bytes.max(1) } else { pre_bytes };
            if what == 3 {
                wait_quiet(|| entered.load(Ordering::SeqCst), 1000);
                if feed_delay_us > 0 {
                    std::thread::sleep(Duration::from_micros(feed_delay_us));
                }
            }
            if pre_bytes > 0 {
                if let Peer::S(p) = &mut peer {
                    let mut off = 0;
                    while off < pre_bytes {
                        match p.write(&data[off..pre_bytes]) {
                            Ok(n) => off += n,
                            Err(e) => {
                                fail(&fails, format!("main: feeding the victim failed: {e:?}"));
                                break;
                            }
                        }
                    }
                }
            }
            // cancel at a seeded moment relative to the victim's start (before it runs, while it reads, in the
            // middle of its subscribe, long after it blocked)
            let co = victim.coroutine().clone();
            if keepalive() {
                KEEP.lock().unwrap().push(victim.coroutine().clone());
            }
            if what == 3 {
                // the cancel is meant for the read on B
                wait_quiet(|| phase2.load(Ordering::SeqCst), 1000);
            }
            let do_cancel = move || {
                if cancel_delay_us > 0 {
                    std::thread::sleep(Duration::from_micros(cancel_delay_us));
                }
                call("co.cancel", 0, 0);
                unsafe { co.cancel() };
                ret("co.cancel", 0);
            };
            if canceller_thread {
                let _ = spawn_thread("canc", do_cancel).join();
            } else {
                do_cancel();
            }
            // a cancelled coroutine ends: it is blocked in a registered io operation, or it sees the bit at its next yield
            // (a victim whose read has a 1.5 s time-out comes back by that at the latest – with the wrong error, see its oracle)
            if !wait_quiet(|| victim.is_done(), 5000) {
                clear_stalls();
                let mut v: Vec<String> = std::mem::take(&mut *RT_PANICS.lock().unwrap());
                v.push(format!(
                    "{}: hang: the cancelled coroutine (victim={}) was never resumed: blocked for ever in its io operation (no hooked event for 5 s)",
                    if v.is_empty() { "F27" } else { "F26" },
                    ["tcp_read", "unix_read", "tcp_accept", "two_sock"][what as usize]
                ));
                v.extend(fails.lock().unwrap().iter().cloned());
                poison(&v);
                return tag_consequences(v);
            }
            match victim.join() {
                Ok(()) => fail(&fails, format!("victim: join returned Ok after cancel (reached_end={})", reached_end.load(Ordering::SeqCst))),
                Err(p) => {
                    if !is_cancel_payload(&p) {
                        fail(&fails, "victim: join error is not the Cancel error".into());
                    }
                }
            }
            if dropped.load(Ordering::SeqCst) != 1 {
                fail(&fails, format!("victim: its captured state was dropped {} times after cancel + join", dropped.load(Ordering::SeqCst)));
            }
            let _ = entered;
            // the other connections finish on their own, then everything is quiet
            join_all(js, &fails);
            settle();
            let d: Vec<_> = std::mem::take(&mut *deferred.lock().unwrap());
            drop(d);
            // what the victim owned is closed: the peer reads EOF
            match peer {
                Peer::S(mut p) => {
                    let mut b = [0u8; 16];
                    call("io.read", 16, 0);
                    let r = p.read(&mut b);
                    ret("io.read", rc(&r));
                    match r {
                        Ok(0) => {}
                        // a reset is also a close (unread data at the victim's end)
                        Err(e) if e.kind() == std::io::ErrorKind::ConnectionReset => {}
                        other => fail(&fails, format!("peer of the cancelled coroutine: read returned {other:?}, expected end of stream")),
                    }
                    park_sock(p);
                }
                // (the listener was captured by the cancelled closure: covered by the drop counter above; the port
                // may already belong to somebody else, so no connect probe)
                Peer::Addr(_) => {}
            }
            if let Some(mut p) = peer_b {
                let mut b = [0u8; 16];
                call("io.read", 16, 0);
                let r = p.read(&mut b);
                ret("io.read", rc(&r));
                if !matches!(r, Ok(0)) {
                    fail(&fails, format!("peer of the cancelled coroutine's second socket: read returned {r:?}, expected end of stream"));
                }
                park_sock(p);
            }
            scenario_end(&fails)
        }),
    }
}

// ---------------------------------------------------------------- io_cancel_shared (reproducer of a finding)

/// FINDING reproducer, not part of the default check: `CancelIoImpl::cancel` takes the coroutine out of the socket's `co`
/// slot but leaves the io timer of the interrupted operation armed (`select`/`fast_schedule`/`schedule` disarm it,
/// `cancel` does not). If the socket outlives the cancelled coroutine (an `Arc<UdpSocket>` shared by several coroutines –
/// `recv_from` takes `&self`), the stale timer fires into whatever operation is blocked on the socket at that time: a
/// later read WITHOUT a time-out fails with TimedOut. (pending_fixes/io-cancel-disarm-timer.patch)
pub fn build_cancel_shared(rng: &mut Rng, _tier: u32) -> LiveBuilt {
    let seed = rng.next();
    let t1 = 40 + rng.below(60); // ms, the victim's time-out
    let cancel_after_ms = 2 + rng.below(10);
    let feed_after_ms = t1 + 60 + rng.below(60); // after the stale deadline
    let survivor_co = rng.chance(500);
    let header = format!("family=io_cancel_shared t1={t1} cancel_after={cancel_after_ms} feed_after={feed_after_ms} survivor={}", if survivor_co { "co" } else { "thread" });
    LiveBuilt {
        header: format!("{header} {}", source_flags()),
        filter: FILTER.to_vec(),
        hang_ms: 4000,
        run: Box::new(move || {
            scenario_begin();
            let fails: Fails = Arc::new(Mutex::new(vec![]));
            let sock = Arc::new(UdpSocket::bind("127.0.0.1:0").unwrap());
            let addr = sock.local_addr().unwrap();
            let tx = Arc::new(UdpSocket::bind("127.0.0.1:0").unwrap());
            let data = Arc::new(payload(seed, 3, 64));
            sock.set_read_timeout(Some(Duration::from_millis(t1))).unwrap();
            let victim = {
                let (sock, fails) = (sock.clone(), fails.clone());
                unsafe {
                    coroutine::Builder::new().name("victim".into()).stack_size(0x4000).spawn(move || {
                        let mut buf = vec![0u8; 256];
                        call("io.tread", t1, 0);
                        let r = sock.recv_from(&mut buf).map(|x| x.0);
                        ret("io.tread", rc(&r));
                        // only reached when the cancel came too late (a legitimate time-out)
                        if !matches!(&r, Err(e) if e.kind() == std::io::ErrorKind::TimedOut) {
                            fail(&fails, format!("victim: recv_from returned {r:?}"));
                        }
                    })
                }
                .unwrap()
            };
            KEEP.lock().unwrap().push(victim.coroutine().clone());
            std::thread::sleep(Duration::from_millis(cancel_after_ms));
            call("co.cancel", 0, 0);
            unsafe { victim.coroutine().cancel() };
            ret("co.cancel", 0);
            let t_cancel = Instant::now();
            let cancelled = match victim.join() {
                Ok(()) => false,
                Err(p) => is_cancel_payload(&p),
            };
            // the survivor: the same socket, NO time-out; the datagram comes after the victim's stale deadline
            sock.set_read_timeout(None).unwrap();
            let feeder = {
                let (tx, data) = (tx.clone(), data.clone());
                spawn_thread("feed", move || {
                    std::thread::sleep(Duration::from_millis(feed_after_ms));
                    call("io.feed", 64, 0);
                    let r = tx.send_to(&data[..64], addr);
                    ret("io.feed", rc(&r));
                })
            };
            let surv = {
                let (sock, fails, data) = (sock.clone(), fails.clone(), data.clone());
                spawn_actor("surv", survivor_co, move || {
                    let mut buf = vec![0u8; 256];
                    call("io.tread", 0, 0);
                    let r = sock.recv_from(&mut buf).map(|x| x.0);
                    ret("io.tread", rc(&r));
                    match r {
                        Ok(64) if buf[..64] == data[..64] => {}
                        Err(e) if e.kind() == std::io::ErrorKind::TimedOut => fail(
                            &fails,
                            format!(
                                "surv: recv_from WITHOUT a time-out failed with TimedOut {:?} after the cancel of another coroutine whose {t1} ms io timer was left armed on the shared socket (cancelled={cancelled})",
                                t_cancel.elapsed()
                            ),
                        ),
                        other => fail(&fails, format!("surv: recv_from returned {other:?}")),
                    }
                })
            };
            if surv.join().is_err() {
                fail(&fails, "actor surv panicked".into());
            }
            let _ = feeder.join();
            park_sock(sock);
            park_sock(tx);
            scenario_end(&fails)
        }),
    }
}

// ---------------------------------------------------------------- io_unix_iter (reproducer of a lead, not part of the default check)

/// The shape of the crate's own test `os::unix::net::test::iter`, which hangs in about 2 % of looped runs under load on the
/// unchanged tree: a coroutine accepts `n` connections one after the other on a UnixListener and reads one byte from each; a
/// plain thread connects `n` times, writes one byte and drops the stream at once; sockets are dropped while their kernel tails may still run, as in the test.
pub fn build_unix_iter(rng: &mut Rng, tier: u32) -> LiveBuilt {
    let seed = rng.next();
    if rng.chance(500) {
        return build_accept_burst(rng, tier, seed);
    }
    let n = 2 + rng.below(5) as usize;
    let gap_us = [0u64, 0, 0, 20, 100][rng.below(5) as usize];
    let header = format!("family=io_unix_iter conns={n} gap_us={gap_us}");
    LiveBuilt {
        header: format!("{header} {}", source_flags()),
        filter: FILTER.to_vec(),
        hang_ms: 3000,
        run: Box::new(move || {
            scenario_begin();
            let fails: Fails = Arc::new(Mutex::new(vec![]));
            let path = format!("/tmp/vh_io_{}_{}.sock", std::process::id(), seed);
            let _ = std::fs::remove_file(&path);
            let listener = may::os::unix::net::UnixListener::bind(&path).unwrap();
            let f2 = fails.clone();
            let server = unsafe {
                coroutine::Builder::new().name("srv".into()).stack_size(0x4000).spawn(move || {
                    for k in 0..n {
                        call("io.accept", 0, 0);
                        let r = listener.accept();
                        ret("io.accept", if r.is_ok() { 0 } else { (-4i64) as u64 });
                        match r {
                            Ok((mut s, _)) => {
                                let mut b = [0u8; 1];
                                call("io.read", 1, 0);
                                let r = s.read(&mut b);
                                ret("io.read", rc(&r));
                                if !matches!(r, Ok(1)) || b[0] != k as u8 {
                                    fail(&f2, format!("srv: connection #{k}: read returned {r:?}, byte {}", b[0]));
                                }
                            }
                            Err(e) => fail(&f2, format!("srv: accept #{k} failed: {e:?}")),
                        }
                    }
                })
            }
            .unwrap();
            KEEP.lock().unwrap().push(server.coroutine().clone());
            for k in 0..n {
                call("io.connect_std", 0, 0); // (in thread context UnixStream::connect is the blocking std connect)
                let r = UnixStream::connect(&path);
                ret("io.connect_std", if r.is_ok() { 0 } else { (-4i64) as u64 });
                match r {
                    Ok(mut s) => {
                        call("io.write", 1, 0);
                        let r = s.write(&[k as u8]);
                        ret("io.write", rc(&r));
                        if !matches!(r, Ok(1)) {
                            fail(&fails, format!("main: write #{k} returned {r:?}"));
                        }
                    }
                    Err(e) => fail(&fails, format!("main: connect #{k} failed: {e:?}")),
                }
                if gap_us > 0 {
                    std::thread::sleep(Duration::from_micros(gap_us));
                }
            }
            if server.join().is_err() {
                fail(&fails, "srv panicked".into());
            }
            let _ = std::fs::remove_file(&path);
            scenario_end(&fails)
        }),
    }
}

// ---------------------------------------------------------------- io_unix_churn (reproducer of a finding, not part of the default check)

// ---------------------------------------------------------------- accept burst (second kind of family io_unix_iter)

/// a listener socket of either kind, owned by the acceptor
enum Lst {
    Tcp(TcpListener),
    Unix(may::os::unix::net::UnixListener),
}
impl Lst {
    fn accept(&self) -> std::io::Result<Stream> {
        match self {
            Lst::Tcp(l) => l.accept().map(|(s, _)| Stream::Tcp(Box::new(s))),
            Lst::Unix(l) => l.accept().map(|(s, _)| Stream::Unix(Box::new(s))),
        }
    }
}

/// ACCEPT BURST: after 0-2 sequential connect / accept pairs, `n` clients (plain threads with the blocking std connect, coroutines with
/// may's connect) connect to a TcpListener / UnixListener while the acceptor (coroutine or plain thread) is busy elsewhere; when all of
/// them are connected – the backlog holds `n` connections, the listener has seen one or a few readiness edges – the acceptor is let
/// go and must accept all `n`, although nobody connects any more: the edge-triggered `io_flag` says that something happened, not how
/// much is queued. Each accepted stream carries a greeting (client id, a seed-derived byte) that is checked and acknowledged, so every
/// client is handed out exactly once and gets its own connection. Oracle for the stranded acceptor: `n` clients connected, fewer
/// accepted, no hooked event by anybody for 5 s.
fn build_accept_burst(rng: &mut Rng, tier: u32, seed: u64) -> LiveBuilt {
    let tcp = rng.chance(500);
    let acc_co = rng.chance(600);
    let warm = rng.below(3) as usize;
    let n = 2 + rng.below(if tier > 0 { 31 } else { 7 }) as usize;
    let cl_co: Vec<bool> = (0..warm + n).map(|_| rng.chance(400)).collect();
    let busy_us = [300u64, 1000, 3000][rng.below(3) as usize];
    let gap_us = [0u64, 0, 50, 400][rng.below(4) as usize]; // between two accepts of the burst
    let header = format!(
        "family=io_unix_iter kind=burst listener={} acceptor={} warm={warm} n={n} clients={} busy_us={busy_us} gap_us={gap_us}",
        if tcp { "tcp" } else { "unix" },
        if acc_co { "co" } else { "thread" },
        cl_co.iter().map(|c| if *c { 'c' } else { 't' }).collect::<String>()
    );
    LiveBuilt {
        header: format!("{header} {}", source_flags()),
        filter: FILTER.to_vec(),
        hang_ms: 7000,
        run: Box::new(move || {
            scenario_begin();
            let fails: Fails = Arc::new(Mutex::new(vec![]));
            if let Some(v) = poisoned_run(&fails) {
                return v;
            }
            let path = format!("/tmp/vh_io_{}_{}.sock", std::process::id(), seed);
            let _ = std::fs::remove_file(&path);
            let (lst, addr) = if tcp {
                let l = TcpListener::bind("127.0.0.1:0").unwrap();
                let a = l.local_addr().unwrap();
                (Lst::Tcp(l), Some(a))
            } else {
                (Lst::Unix(may::os::unix::net::UnixListener::bind(&path).unwrap()), None)
            };
            let total = warm + n;
            let key = move |id: usize| (seed as u8).wrapping_mul(31).wrapping_add(id as u8 ^ 0xa5);
            let connected = Arc::new(AtomicUsize::new(0)); // clients whose connect has returned
            let accepted = Arc::new(AtomicUsize::new(0));
            let go = Arc::new(AtomicUsize::new(0)); // how many clients may connect
            let release = Arc::new(AtomicBool::new(false)); // the acceptor may start on the burst
            // ---- the acceptor
            let acceptor = {
                let (fails, connected, accepted, go, release) = (fails.clone(), connected.clone(), accepted.clone(), go.clone(), release.clone());
                spawn_actor("acc", acc_co, move || {
                    let nap = |us: u64| {
                        if acc_co {
                            coroutine::sleep(Duration::from_micros(us));
                        } else {
                            std::thread::sleep(Duration::from_micros(us));
                        }
                    };
                    let mut seen = vec![false; total];
                    for k in 0..total {
                        if k < warm {
                            go.store(k + 1, Ordering::SeqCst); // sequential: one client, one accept
                        } else if k == warm {
                            // busy elsewhere while the burst connects
                            go.store(total, Ordering::SeqCst);
                            while !release.load(Ordering::SeqCst) {
                                nap(busy_us);
                            }
                        } else if gap_us > 0 {
                            nap(gap_us);
                        }
                        call("io.accept", 0, 0);
                        let r = lst.accept();
                        ret("io.accept", if r.is_ok() { 0 } else { (-4i64) as u64 });
                        let mut s = match r {
                            Ok(s) => s,
                            Err(e) => {
                                fail(&fails, format!("acc: accept #{k} failed: {e:?}"));
                                return;
                            }
                        };
                        accepted.fetch_add(1, Ordering::SeqCst);
                        // the greeting says who it is
                        let mut b = [0u8; 2];
                        let mut got = 0;
                        while got < 2 {
                            call("io.read", 2, 0);
                            let r = s.read(&mut b[got..]);
                            ret("io.read", rc(&r));
                            match r {
                                Ok(m) if m > 0 => got += m,
                                other => {
                                    fail(&fails, format!("acc: connection #{k}: greeting read returned {other:?}"));
                                    return;
                                }
                            }
                        }
                        let id = b[0] as usize;
                        if id >= total || b[1] != key(id) {
                            fail(&fails, format!("acc: connection #{k}: greeting {b:?} is not one of the clients'"));
                        } else if seen[id] {
                            fail(&fails, format!("acc: connection #{k}: client {id} was handed out twice"));
                        } else {
                            seen[id] = true;
                            if id < warm && id != k {
                                fail(&fails, format!("acc: accept #{k} returned the connection of warm-up client {id}"));
                            }
                        }
                        call("io.write", 1, 0);
                        let r = s.write(&[b[0] ^ 0x5a]);
                        ret("io.write", rc(&r));
                        if !matches!(r, Ok(1)) {
                            fail(&fails, format!("acc: connection #{k}: ack write returned {r:?}"));
                        }
                        park_sock(s);
                    }
                    let _ = connected;
                })
            };
            // ---- the clients
            let mut cls = vec![];
            for id in 0..total {
                let (fails, connected, go) = (fails.clone(), connected.clone(), go.clone());
                let path = path.clone();
                let is_co = cl_co[id];
                cls.push((
                    format!("cl{id}"),
                    spawn_actor(&format!("cl{id}"), is_co, move || {
                        while go.load(Ordering::SeqCst) <= id {
                            if is_co {
                                coroutine::sleep(Duration::from_micros(100));
                            } else {
                                std::thread::sleep(Duration::from_micros(50));
                            }
                        }
                        let greet = [id as u8, key(id)];
                        let mut ack = [0u8; 1];
                        // a thread connects and talks through std (nothing of may involved: it only fills the backlog); a coroutine uses may
                        let r: std::io::Result<usize> = if !is_co {
                            use std::io::{Read as _, Write as _};
                            match addr {
                                Some(a) => std::net::TcpStream::connect(a).and_then(|mut s| {
                                    connected.fetch_add(1, Ordering::SeqCst);
                                    s.write_all(&greet)?;
                                    s.read(&mut ack)
                                }),
                                None => std::os::unix::net::UnixStream::connect(&path).and_then(|mut s| {
                                    connected.fetch_add(1, Ordering::SeqCst);
                                    s.write_all(&greet)?;
                                    s.read(&mut ack)
                                }),
                            }
                        } else {
                            call("io.connect", 0, 0);
                            let r = match addr {
                                Some(a) => TcpStream::connect(a).map(|s| Stream::Tcp(Box::new(s))),
                                None => UnixStream::connect(&path).map(|s| Stream::Unix(Box::new(s))),
                            };
                            ret("io.connect", if r.is_ok() { 0 } else { (-4i64) as u64 });
                            r.and_then(|mut s| {
                                connected.fetch_add(1, Ordering::SeqCst);
                                let mut off = 0;
                                while off < 2 {
                                    call("io.write", (2 - off) as u64, 0);
                                    let w = s.write(&greet[off..]);
                                    ret("io.write", rc(&w));
                                    off += w?;
                                }
                                call("io.read", 1, 0);
                                let r = s.read(&mut ack);
                                ret("io.read", rc(&r));
                                park_sock(s);
                                r
                            })
                        };
                        match r {
                            Ok(1) if ack[0] == id as u8 ^ 0x5a => {}
                            other => fail(&fails, format!("cl{id}: connect / greeting / ack: {other:?}, ack {ack:?}")),
                        }
                    }),
                ));
            }
            // ---- main: when the whole burst is connected (and the acceptor has been busy meanwhile) let the acceptor go
            let all_in = wait_quiet(|| connected.load(Ordering::SeqCst) == total, 5000);
            if !all_in {
                fail(&fails, format!("main: only {} of {total} clients got connected", connected.load(Ordering::SeqCst)));
            }
            release.store(true, Ordering::SeqCst);
            if !wait_quiet(|| acceptor.is_done(), 5000) {
                let mut v: Vec<String> = std::mem::take(&mut *RT_PANICS.lock().unwrap());
                v.push(format!(
                    "hang: the acceptor is stranded: {} of {total} clients are connected (the backlog is not empty, nobody will connect any more), {} accepted, it does not come back from accept (no hooked event for 5 s)",
                    connected.load(Ordering::SeqCst),
                    accepted.load(Ordering::SeqCst)
                ));
                v.extend(fails.lock().unwrap().iter().cloned());
                poison(&v);
                return tag_consequences(v);
            }
            if acceptor.join().is_err() {
                fail(&fails, "actor acc panicked".into());
            }
            join_all(cls, &fails);
            let _ = std::fs::remove_file(&path);
            scenario_end(&fails)
        }),
    }
}


/// FINDING reproducer: `CoIo` (UnixStream / UnixListener / UnixDatagram / the generic wrapper) drops `inner` – which closes the
/// fd – BEFORE `io`, whose drop does EPOLL_CTL_DEL on that fd NUMBER. In between another thread can open a socket that gets the
/// same number and register it; the late delete then removes the NEW socket's registration and that socket never sees a
/// readiness event again: a reader blocks for ever although the data is there (pending_fixes/io-coio-close-before-epoll-del.patch).
/// Several pairs of plain threads create Unix socket pairs, block in a read, feed it and drop both ends at once, concurrently.
/// (Seen first in the crate's own tests: `os::unix::net::test::{basic,pair,try_clone,iter}` hang in ~2 % of looped runs under load).
pub fn build_unix_churn(rng: &mut Rng, tier: u32) -> LiveBuilt {
    let seed = rng.next();
    let pairs = 3 + rng.below(3) as usize;
    let rounds = if tier > 0 { 120 } else { 60 };
    // finding 7 (`F28:`): a plain-thread caller parks ONCE while its proxy coroutine waits for the io (`yield_with_io`); `thread::park`
    // may return for any other unpark of the thread (the std channel the readers get their sockets from can leave a token behind –
    // that is how the defect was found, 1 hang in ~2000 scenarios – or spuriously). `stale` readers leave such a token on purpose before
    // some of their reads: legal, and harmless for code that parks in a loop
    let stale_every = [0usize, 0, 3, 7][rng.below(4) as usize];
    let header = format!("family=io_unix_churn pairs={pairs} rounds={rounds} stale_every={stale_every}");
    LiveBuilt {
        header: format!("{header} {}", source_flags()),
        filter: FILTER.to_vec(),
        hang_ms: 8000,
        run: Box::new(move || {
            scenario_begin();
            let fails: Fails = Arc::new(Mutex::new(vec![]));
            if let Some(v) = poisoned_run(&fails) {
                return v;
            }
            let mut js = vec![];
            for p in 0..pairs {
                let (tx, rx) = std::sync::mpsc::channel::<UnixStream>();
                let f1 = fails.clone();
                js.push((
                    format!("cw{p}"),
                    spawn_thread(&format!("cw{p}"), move || {
                        for k in 0..rounds {
                            let (mut a, b) = match UnixStream::pair() {
                                Ok(x) => x,
                                Err(e) => {
                                    fail(&f1, format!("cw{p}: pair failed: {e:?}"));
                                    return;
                                }
                            };
                            if tx.send(b).is_err() {
                                return;
                            }
                            std::thread::sleep(Duration::from_micros(30 + (k as u64 * 7) % 90));
                            call("io.write", 1, 0);
                            let r = a.write(&[k as u8]);
                            ret("io.write", rc(&r));
                            // `a` is dropped here: close, then the late EPOLL_CTL_DEL
                        }
                    }),
                ));
                let f2 = fails.clone();
                js.push((
                    format!("cr{p}"),
                    spawn_thread(&format!("cr{p}"), move || {
                        for k in 0..rounds {
                            let Ok(mut b) = rx.recv() else { return };
                            if stale_every > 0 && (k + p + seed as usize) % stale_every == 0 {
                                std::thread::current().unpark();
                            }
                            let mut buf = [0u8; 4];
                            call("io.read", 4, 0);
                            let r = b.read(&mut buf);
                            ret("io.read", rc(&r));
                            if !matches!(r, Ok(1)) || buf[0] != k as u8 {
                                fail(&f2, format!("cr{p}: round {k}: read returned {r:?}"));
                            }
                        }
                    }),
                ));
            }
            // every read is fed 30-120 us after its socket was handed over: nobody stays blocked. No hooked event at all for 6 s while a
            // reader has not finished = it never will
            if !wait_quiet(|| js.iter().all(|(_, j)| j.is_done()), 6000) {
                let who: Vec<&str> = js.iter().filter(|(_, j)| !j.is_done()).map(|(n, _)| n.as_str()).collect();
                let mut v: Vec<String> = std::mem::take(&mut *RT_PANICS.lock().unwrap());
                v.push(format!(
                    "F28: hang: {} never came back from a blocking read although its byte was written (plain-thread caller: the thread went on before its proxy coroutine was through with the request, the proxy then subscribed with a dangling request) (no hooked event for 6 s)",
                    who.join(", ")
                ));
                v.extend(fails.lock().unwrap().iter().cloned());
                poison(&v);
                return tag_consequences(v);
            }
            join_all(js, &fails);
            scenario_end(&fails)
        }),
    }
}
