//! C08 (i): differential test of the pure duration arithmetic (det mode, one actor).
//!
//! The REAL functions (`AtomicDuration::{new,store,take,get}`, `TimeOutList::add_timer` +
//! `schedule_timer` under the virtual clock) are run over a stratified sample of the whole
//! `Duration` range drawn from the scenario seed; every call is logged as
//! `call <op> secs subsec_nanos` / `ret <op> secs subsec_nanos` (`subsec_nanos = -1` encodes `None`)
//! together with the hooked atomic operations on the stored word, and the Lean driver computes the
//! model's outputs for the same inputs (`Model/Time/DurReplay.lean`).
//!
//! Oracles (independent of the model): a time-out that was stored as `Some(d)` comes back as
//! `Some(d')` with `d <= d' < d + 1 ms` (`d' = 1 ms` for `d = 0`), `None` comes back as `None`, a second
//! `take` gives `None`; a timer added at virtual time `now` for `d` is reported `d` ns away and fires at
//! `now + d`, not at `now + d - 1`.
use super::Built;
use crate::rt::{call, clock, clock_set, ret, ret2, Actor, Rng};
use may::verif::export::{AtomicDuration, TimeOutList};
use std::sync::{Arc, Mutex};
use std::time::Duration;

const MS: u128 = 1_000_000;
const NONE: u64 = u64::MAX;

/// a duration from one of the strata of the u64-seconds x u32-nanos range
fn sample(rng: &mut Rng) -> Duration {
    let ns = |n: u128| Duration::new((n / 1_000_000_000) as u64, (n % 1_000_000_000) as u32);
    let pm = |rng: &mut Rng, n: u128| -> Duration {
        // n, n-1, n+1, n-small, n+small
        match rng.below(5) {
            0 => ns(n),
            1 => ns(n.saturating_sub(1)),
            2 => ns(n + 1),
            3 => ns(n.saturating_sub(1 + rng.below(999_999) as u128)),
            _ => ns(n + 1 + rng.below(999_999) as u128),
        }
    };
    match rng.below(14) {
        0 => Duration::ZERO,
        1 => ns(1),
        2 => ns(1 + rng.below(999_999) as u128), // below one millisecond
        3 => {
            let k = 1 + rng.below(10) as u128; // k ms +- .. , small k
            pm(rng, MS * k)
        }
        4 => {
            let k = 1 + rng.below(100_000) as u128; // k ms +- .. , up to 100 s
            pm(rng, MS * k)
        }
        5 => ns(rng.below(10_000_000_000) as u128), // anything below 10 s
        6 => {
            let k = 1 + rng.below(120) as u128; // whole seconds
            pm(rng, 1_000_000_000 * k)
        }
        7 => {
            let k = 1 + rng.below(48) as u128; // hours
            pm(rng, 3_600_000_000_000 * k)
        }
        8 => pm(rng, 1u128 << 63),                                   // i64 ns limit
        9 => pm(rng, 1u128 << 64),                                   // u64 ns limit (add_timer's `as u64`)
        10 => pm(rng, (u64::MAX as u128) * MS),                      // usize::MAX milliseconds (the stored word saturates)
        11 => pm(rng, (1u128 << 32) * MS),                           // u32 ms (32-bit usize, epoll's i32 ms)
        12 => Duration::new(rng.next(), (rng.next() % 1_000_000_000) as u32), // anywhere
        _ => {
            if rng.chance(500) {
                Duration::MAX
            } else {
                Duration::new(u64::MAX - rng.below(3), 999_999_999 - rng.below(2) as u32)
            }
        }
    }
}

fn enc(d: Option<Duration>) -> (u64, u64) {
    match d {
        None => (0, NONE),
        Some(d) => (d.as_secs(), d.subsec_nanos() as u64),
    }
}

fn show(d: Option<Duration>) -> String {
    match d {
        None => "None".into(),
        Some(d) => format!("Some({} ns)", d.as_nanos()),
    }
}

/// the round-trip oracle; `how` says which functions were used
fn roundtrip_oracle(how: &str, input: Option<Duration>, out: Option<Duration>, fails: &mut Vec<String>) {
    match (input, out) {
        (None, None) => {}
        (None, Some(_)) => fails.push(format!("None became a finite time-out: {how}({}) = {}", show(input), show(out))),
        (Some(_), None) => fails.push(format!(
            "time-out lost (a finite time-out is stored as 'wait for ever'): {how}({}) = None",
            show(input)
        )),
        (Some(d), Some(o)) => {
            let (d, o) = (d.as_nanos(), o.as_nanos());
            let storable = d <= (usize::MAX as u128) * MS;
            if o < d && storable {
                fails.push(format!(
                    "time-out shortened (fires early): {how}({}) = {} < requested",
                    show(input),
                    show(out)
                ));
            } else if o >= d.max(1) + MS {
                fails.push(format!(
                    "time-out lengthened by a millisecond or more: {how}({}) = {}",
                    show(input),
                    show(out)
                ));
            }
        }
    }
}

pub fn build(rng: &mut Rng, tier: u32) -> Built {
    let nops = if tier > 0 { 120 } else { 40 };
    // the op list is drawn here, from the scenario seed
    #[derive(Clone, Copy)]
    enum Op {
        NewTake(Option<Duration>),
        NewGet(Option<Duration>),
        StoreTake(Option<Duration>),
        StoreGetTake(Option<Duration>),
        StoreStoreTake(Option<Duration>, Option<Duration>),
        Delay(u64, Duration), // clock advance, duration
    }
    let opt = |rng: &mut Rng| if rng.chance(80) { None } else { Some(sample(rng)) };
    // corpus first: the two F2 witnesses (500 us: lost; 1.5 ms: early)
    let mut ops = vec![
        Op::StoreTake(Some(Duration::from_nanos(500_000))),
        Op::StoreTake(Some(Duration::from_nanos(1_500_000))),
        Op::NewTake(Some(Duration::from_nanos(500_000))),
        Op::Delay(0, Duration::from_nanos(1_500_000)),
    ];
    for _ in 0..nops {
        ops.push(match rng.below(8) {
            0 => Op::NewTake(opt(rng)),
            1 => Op::NewGet(opt(rng)),
            2 | 3 => Op::StoreTake(opt(rng)),
            4 => Op::StoreGetTake(opt(rng)),
            5 => Op::StoreStoreTake(opt(rng), opt(rng)),
            _ => {
                let adv = match rng.below(4) {
                    0 => 0,
                    1 => rng.below(1_000_000),
                    2 => rng.below(1_000_000_000_000),
                    _ => rng.below(1 << 50),
                };
                Op::Delay(adv, sample(rng))
            }
        });
    }
    let fails = Arc::new(Mutex::new(Vec::<String>::new()));
    let f2 = fails.clone();
    let n = ops.len();
    let actor: Actor = Box::new(move || {
        let mut fails = vec![];
        let cell = AtomicDuration::new(None);
        // `which`: 0 = the long-lived cell, 1 = the cell made by the last `dur.new`
        let take = |c: &AtomicDuration, which: u64| {
            call("dur.take", which, 0);
            let r = c.take();
            let (a, b) = enc(r);
            ret2("dur.take", a, b);
            r
        };
        let get = |c: &AtomicDuration, which: u64| {
            call("dur.get", which, 0);
            let r = c.get();
            let (a, b) = enc(r);
            ret2("dur.get", a, b);
            r
        };
        let store = |c: &AtomicDuration, d: Option<Duration>| {
            let (a, b) = enc(d);
            call("dur.store", a, b);
            c.store(d);
            ret("dur.store", 0);
        };
        let new = |d: Option<Duration>| {
            let (a, b) = enc(d);
            call("dur.new", a, b);
            let c = AtomicDuration::new(d);
            ret("dur.new", 0);
            c
        };
        for op in ops {
            match op {
                Op::NewTake(d) => {
                    let c = new(d);
                    let r = take(&c, 1);
                    roundtrip_oracle("new+take", d, r, &mut fails);
                    let r2 = take(&c, 1);
                    if r2.is_some() {
                        fails.push(format!("second take not None: {}", show(r2)));
                    }
                }
                Op::NewGet(d) => {
                    let c = new(d);
                    let r = get(&c, 1);
                    roundtrip_oracle("new+get", d, r, &mut fails);
                    let r2 = get(&c, 1);
                    if r2 != r {
                        fails.push(format!("get is not idempotent: {} then {}", show(r), show(r2)));
                    }
                }
                Op::StoreTake(d) => {
                    store(&cell, d);
                    let r = take(&cell, 0);
                    roundtrip_oracle("store+take", d, r, &mut fails);
                }
                Op::StoreGetTake(d) => {
                    store(&cell, d);
                    let g = get(&cell, 0);
                    let r = take(&cell, 0);
                    roundtrip_oracle("store+get", d, g, &mut fails);
                    if g != r {
                        fails.push(format!("get and take disagree: {} vs {}", show(g), show(r)));
                    }
                    let r2 = take(&cell, 0);
                    if r2.is_some() {
                        fails.push(format!("second take not None: {}", show(r2)));
                    }
                }
                Op::StoreStoreTake(d1, d2) => {
                    store(&cell, d1);
                    store(&cell, d2);
                    let r = take(&cell, 0);
                    roundtrip_oracle("store+store+take", d2, r, &mut fails);
                }
                Op::Delay(adv, d) => {
                    // `time = now() + dur.as_nanos() as u64`, observed through schedule_timer's answer
                    let now = clock().unwrap_or(0).saturating_add(adv);
                    let dn = d.as_nanos();
                    let iv = dn as u64; // what the `as u64` cast of add_timer keeps
                    if now.checked_add(iv).is_none() {
                        continue; // `now() + interval` would overflow (panics in a debug build): outside the sampled range
                    }
                    call("clock.set", now, 0);
                    clock_set(now);
                    ret("clock.set", 0);
                    let (a, b) = enc(Some(d));
                    call("tol.delay", a, b);
                    let tl = TimeOutList::<usize>::new();
                    let fired = std::cell::Cell::new(0usize);
                    let f = |x: usize| fired.set(fired.get() + x);
                    let (_h, is_head) = tl.add_timer(d, 1);
                    let r = tl.schedule_timer(now, &f);
                    // 2 = fired at once, 1 = Some(delay), 0 = neither
                    let (tag, val) = match (fired.get(), r) {
                        (0, Some(t)) => (1, t),
                        (0, None) => (0, 0),
                        (_, _) => (2, r.unwrap_or(NONE)),
                    };
                    ret2("tol.delay", tag, val);
                    if !is_head {
                        fails.push("add_timer on a fresh list: is_head = false".into());
                    }
                    if dn < (1u128 << 64) {
                        // the interval is representable: the deadline must be exactly now + d
                        if dn == 0 {
                            if tag != 2 {
                                fails.push(format!("zero timer not fired by schedule_timer(now): tag={tag}"));
                            }
                        } else if tag != 1 || val as u128 != dn {
                            fails.push(format!(
                                "deadline wrong: add_timer({} ns) at now={now}: schedule_timer(now) says {} (tag {tag}), expected {dn}",
                                dn, val
                            ));
                        } else {
                            // one ns before the deadline nothing fires, at the deadline it does
                            let r1 = tl.schedule_timer(now + iv - 1, &f);
                            if fired.get() != 0 || r1 != Some(1) {
                                fails.push(format!(
                                    "timer fired early: add_timer({dn} ns) at now={now} fired at now+d-1 (fired={}, r={:?})",
                                    fired.get(),
                                    r1
                                ));
                            }
                            let r2 = tl.schedule_timer(now + iv, &f);
                            if fired.get() != 1 || r2.is_some() {
                                fails.push(format!(
                                    "timer not fired at its deadline: add_timer({dn} ns) at now={now}: fired={} r={:?}",
                                    fired.get(),
                                    r2
                                ));
                            }
                        }
                    }
                }
            }
        }
        *f2.lock().unwrap() = fails;
    });
    Built {
        header: format!("family=time_dur actors=1 ops={n}"),
        names: vec!["t0".into()],
        actors: vec![actor],
        check: Box::new(move |_r| {
            let mut v = fails.lock().unwrap().clone();
            v.truncate(6);
            v
        }),
        filter: vec!["sync/atomic_dur.rs"],
        timeout_permille: 0,
    }
}
