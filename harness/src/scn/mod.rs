//! scenario families
use crate::rt::{Actor, DetResult, Rng};

pub mod mq_mpsc;
pub mod mq_spsc;
pub mod ch_util;
pub mod ch_mpsc;
pub mod mq_spmc;
pub mod ch_mpmc;
pub mod ch_spsc;
pub mod mutex;
pub mod blocker_thr;
pub mod mq_tl;
pub mod rwlock;
pub mod sem;
pub mod syncflag;
pub mod condvar;
pub mod barrier;
pub mod waitgroup;
pub mod time_dur;
pub mod timeout_list;
pub mod timer_thread;

/// a det-mode scenario ready to run
pub struct Built {
    /// `key=value` pairs describing the scenario for the model driver
    pub header: String,
    pub names: Vec<String>,
    pub actors: Vec<Actor>,
    /// property oracles evaluated on the finished run (independent of the model)
    pub check: Box<dyn FnOnce(&DetResult) -> Vec<String>>,
    /// source files whose hooked operations are part of this layer's trace
    pub filter: Vec<&'static str>,
    /// per-mille probability that an enabled time-out fires instead of a normal step
    pub timeout_permille: u64,
}

pub fn build_det(family: &str, rng: &mut Rng, tier: u32) -> Option<Built> {
    match family {
        "mutex" => Some(mutex::build(rng, tier)),
        "blocker_thr" => Some(blocker_thr::build(rng, tier)),
        "ch_mpmc_f4" => Some(ch_mpmc::build_f4(rng, tier)),
        "ch_spsc" => Some(ch_spsc::build(rng, tier)),
        "ch_mpmc" => Some(ch_mpmc::build(rng, tier)),
        "mq_tl" => Some(mq_tl::build(rng, tier)),
        "rwlock" => Some(rwlock::build(rng, tier)),
        "rwlock_reg" => Some(rwlock::build_reg(rng, tier)),
        "ch_mpsc" => Some(ch_mpsc::build(rng, tier)),
        "sem" => Some(sem::build(rng, tier)),
        "syncflag" => Some(syncflag::build(rng, tier)),
        "mq_mpsc" => Some(mq_mpsc::build(rng, tier)),
        "mq_spsc" => Some(mq_spsc::build(rng, tier)),
        "mq_spsc_ring" => Some(mq_spsc::build_ring(rng, tier)),
        "mq_spmc" => Some(mq_spmc::build(rng, tier)),
        "condvar" => Some(condvar::build(rng, tier)),
        "barrier" => Some(barrier::build(rng, tier)),
        "barrier_small" => Some(barrier::build_small(rng, tier)),
        "waitgroup" => Some(waitgroup::build(rng, tier)),
        "time_dur" => Some(time_dur::build(rng, tier)),
        "timeout_list" => Some(timeout_list::build(rng, tier)),
        "timer_thread" => Some(timer_thread::build(rng, tier)),
        _ => None,
    }
}

pub fn det_families() -> Vec<&'static str> {
    vec!["blocker_thr", "ch_spsc", "ch_mpmc", "ch_mpsc", "mutex", "mq_tl", "rwlock", "rwlock_reg", "sem", "syncflag", "mq_mpsc", "mq_spsc", "mq_spsc_ring", "mq_spmc", "condvar", "barrier", "barrier_small", "waitgroup", "time_dur", "timeout_list"]
}

pub mod live_park;
pub mod live_park_once;
pub mod live_condvar;
pub mod live_cqueue;
pub mod live_local;
pub mod live_join;
pub mod live_rwlock;
pub mod live_life;
pub mod live_cancel;
pub mod live_sleep;
pub mod live_io;
pub mod live_scope;
pub mod live_panic;

/// a live-mode scenario (real runtime, real time)
pub struct LiveBuilt {
    pub header: String,
    /// runs the scenario to completion on the calling thread (actor `main`); returns oracle failures
    pub run: Box<dyn FnOnce() -> Vec<String> + Send>,
    pub filter: Vec<&'static str>,
    /// no hooked event for this long while the scenario is unfinished = hang
    pub hang_ms: u64,
}

pub fn build_live(family: &str, rng: &mut Rng, tier: u32) -> Option<LiveBuilt> {
    match family {
        "park" => Some(live_park::build(rng, tier)),
        "condvar_live" => Some(live_condvar::build(rng, tier)),
        "cqueue" => Some(live_cqueue::build(rng, tier)),
        "cqueue_co" => Some(live_cqueue::build_co(rng, tier)),
        "local" => Some(live_local::build(rng, tier)),
        "blocker" => Some(live_park::build_blocker(rng, tier)),
        "park_sleepers" => Some(live_park::build_sleepers(rng, tier)),
        "park_f6" => Some(live_park::build_f6(rng, tier)),
        "park_once" => Some(live_park_once::build(rng, tier)),
        "join" => Some(live_join::build(rng, tier)),
        "rwlock_live" => Some(live_rwlock::build(rng, tier)),
        "life" => Some(live_life::build(rng, tier)),
        "cancel" => Some(live_cancel::build(rng, tier)),
        "sleep_live" => Some(live_sleep::build(rng, tier)),
        "cancel_mutex" => Some(live_cancel::build_mutex(rng, tier)),
        "cancel_cvlock" => Some(live_cancel::build_cvlock(rng, tier)),
        "io_stream" => Some(live_io::build_stream(rng, tier)),
        "io_timeout" => Some(live_io::build_timeout(rng, tier, false)),
        "io_timeout_race" => Some(live_io::build_timeout(rng, tier, true)),
        "io_cancel" => Some(live_io::build_cancel(rng, tier)),
        "io_cancel_shared" => Some(live_io::build_cancel_shared(rng, tier)),
        "io_unix_iter" => Some(live_io::build_unix_iter(rng, tier)),
        "io_unix_churn" => Some(live_io::build_unix_churn(rng, tier)),
        "scope" => Some(live_scope::build(rng, tier)),
        "panic" => Some(live_panic::build(rng, tier, false)),
        "panicscope" => Some(live_panic::build(rng, tier, true)),
        "paniccq" => Some(live_panic::build_cq(rng, tier)),
        "panicrw" => Some(live_panic::build_rw(rng, tier)),
        "panichand" => Some(live_panic::build_hand(rng, tier)),
        "scopecatch" => Some(live_panic::build_catch(rng, tier)),
        _ => None,
    }
}

/// spawn a plain thread that is an actor of the scenario
pub fn spawn_actor_thread<F: FnOnce() + Send + 'static>(name: &str, f: F) -> std::thread::JoinHandle<()> {
    let n = name.to_string();
    std::thread::Builder::new()
        .name(n.clone())
        .spawn(move || {
            may::verif::push_actor(n);
            f();
            may::verif::pop_actor();
        })
        .unwrap()
}

/// set once a scenario of this process has made a coroutine park while it unwinds (known finding F10: std's
/// per-thread panic counter is then wrong on the workers involved for the rest of the process)
pub static UNWIND_PARK_TAINT: std::sync::atomic::AtomicBool = std::sync::atomic::AtomicBool::new(false);

/// classify the oracle failures of a scenario: in a tainted process everything that is not F5/F10 itself is a
/// possible consequence of F10 and is reported under that prefix
pub fn classify_f10(fails: &mut Vec<String>) {
    if fails.iter().any(|f| f.starts_with("F10:")) {
        UNWIND_PARK_TAINT.store(true, std::sync::atomic::Ordering::SeqCst);
    }
    if UNWIND_PARK_TAINT.load(std::sync::atomic::Ordering::SeqCst) {
        for f in fails.iter_mut() {
            if !f.starts_with("F10:") && !f.starts_with("F5:") && !f.starts_with("hang") {
                *f = format!("F10: (possible consequence: a coroutine of this process parked while unwinding) {f}");
            }
        }
    }
}

/// wait until no hooked event has been logged for `ms` milliseconds (kernel tails / triggers of coroutines whose
/// bodies are over still log events; the perturbation can delay each by up to 2 ms)
pub fn quiesce(ms: u64) {
    use std::sync::atomic::Ordering;
    let mut last = crate::rt::LIVE_EVENTS.load(Ordering::Relaxed);
    let mut t = std::time::Instant::now();
    loop {
        std::thread::sleep(std::time::Duration::from_micros(500));
        let n = crate::rt::LIVE_EVENTS.load(Ordering::Relaxed);
        if n != last {
            last = n;
            t = std::time::Instant::now();
        } else if t.elapsed().as_millis() as u64 >= ms {
            return;
        }
    }
}
