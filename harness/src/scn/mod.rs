//! scenario families
use crate::rt::{Actor, DetResult, Rng};

pub mod mutex;

/// a det-mode scenario ready to run
pub struct Built {
    /// `key=value` pairs describing the scenario for the model driver
    pub header: String,
    pub names: Vec<String>,
    pub actors: Vec<Actor>,
    /// property oracles evaluated on the finished run (independent of the model)
    pub check: Box<dyn FnOnce(&DetResult) -> Vec<String>>,
    /// source files whose hooked operations are part of this layer's trace
    pub filter: Vec<&'static str>,
    /// per-mille probability that an enabled time-out fires instead of a normal step
    pub timeout_permille: u64,
}

pub fn build_det(family: &str, rng: &mut Rng, tier: u32) -> Option<Built> {
    match family {
        "mutex" => Some(mutex::build(rng, tier)),
        _ => None,
    }
}

pub fn det_families() -> Vec<&'static str> {
    vec!["mutex"]
}
