//! C02 (live mode): park / unpark never loses a wake-up
//!
//! * family `park`   : `coroutine::park()` / `park_timeout(d)` on the per-coroutine handle, 1-4 rounds on the SAME
//!   `Park`; 1-4 unparkers that are threads (`t1`..) and coroutines (`c:u1`..) call `Coroutine::unpark()` before,
//!   while and after the parker parks.
//! * family `blocker`: `may::sync::Blocker::current()` - a FRESH blocker per round, 1-2 parks on it - in coroutine
//!   context (`c:c1`, the blocker wraps a `Park`) or in thread context (`p1`, it wraps a `ThreadPark`; nothing of it
//!   is hooked in live mode, the model sees the API boundary only). Result kinds are recorded in `ret`.
//!
//! API boundary events (a1, a2):
//!   call co.park d_ms 0            ret co.park 0                (d_ms = 0: no time-out)
//!   call co.unpark 0 0             ret co.unpark 0
//!   call blk.new i 0               ret blk.new i                (parker creates blocker number i)
//!   call blk.park i d_ms           ret blk.park r               (r = 0 Ok, 1 Timeout, 2 Canceled)
//!   call blk.unpark i 0            ret blk.unpark 0
//!   call blk.drop i 0              ret blk.drop 0               (the parker drops ITS reference)
//!
//! Oracles (independent of the model): every round completes (a parker that is unparked after its previous park
//! returned must return: the unparkers keep going until the parker is through, the watchdog reports a hang);
//! `Timeout` only from a timed park and never before the requested duration (exact lower bound, no upper bounds);
//! `Canceled` never (nobody cancels here).
//!
//! Time-outs do fire: the unparkers sit some rounds out. `main` is a rescuer for UNTIMED parks only (bounded, after
//! 80 ms without progress). A timed park must be ended by its time-out: on a tree with the F6 fix (`f6_fixed()`, header
//! `f6fix=1`) and always in family `park_f6` a lost time-out is a hang report; on a tree without the fix the families of
//! the check still rescue timed parks (known defect F6, pending_fixes/README-C02.md) so that the check stays usable.
use super::{spawn_actor_thread, LiveBuilt};
use crate::rt::{call, ret, Rng};
use may::coroutine;
use may::coroutine::ParkError;
use may::sync::Blocker;
use std::sync::atomic::{AtomicBool, AtomicUsize, Ordering};
use std::sync::{Arc, Mutex, Weak};
use std::time::{Duration, Instant};

// ------------------------------------------------------------------------------------------------ crash reporting
//
// The runtime under test can corrupt the heap of the harness process (timer-list node written after free, see
// pending_fixes/README-C02.md): glibc then aborts the process (SIGABRT) or it segfaults. A handler turns that into
// the one-line JSON summary the check expects, with an oracle failure under the stable prefix `memory-corruption:`,
// so that the run is reported as a finding of the implementation and not as a harness crash.
mod crash {
    use std::sync::atomic::{AtomicU64, Ordering};
    pub static SEED0: AtomicU64 = AtomicU64::new(u64::MAX);
    pub static BUILT: AtomicU64 = AtomicU64::new(0);
    static mut FAMILY: [u8; 16] = [0; 16];
    static mut FAMILY_LEN: usize = 0;

    extern "C" {
        fn signal(signum: i32, handler: usize) -> usize;
        fn write(fd: i32, buf: *const u8, n: usize) -> isize;
        fn _exit(code: i32) -> !;
    }

    fn put(buf: &mut [u8; 640], n: &mut usize, s: &[u8]) {
        for &b in s {
            if *n < buf.len() {
                buf[*n] = b;
                *n += 1;
            }
        }
    }
    fn put_num(buf: &mut [u8; 640], n: &mut usize, mut v: u64) {
        let mut d = [0u8; 20];
        let mut k = 0;
        loop {
            d[k] = b'0' + (v % 10) as u8;
            v /= 10;
            k += 1;
            if v == 0 {
                break;
            }
        }
        while k > 0 {
            k -= 1;
            put(buf, n, &d[k..k + 1]);
        }
    }

    extern "C" fn on_signal(sig: i32) {
        // async-signal-safe only: no allocation, no locks
        let mut buf = [0u8; 640];
        let mut n = 0usize;
        let built = BUILT.load(Ordering::Relaxed);
        let seed = SEED0.load(Ordering::Relaxed).wrapping_add(built.saturating_sub(1));
        put(&mut buf, &mut n, b"\n{\"family\":\"");
        unsafe {
            let len = FAMILY_LEN;
            let fam = FAMILY;
            put(&mut buf, &mut n, &fam[..len]);
        }
        put(&mut buf, &mut n, b"\",\"runs\":");
        put_num(&mut buf, &mut n, built);
        put(&mut buf, &mut n, b",\"steps\":0,\"events\":0,\"wall_s\":0,\"workers\":0,\"oracle_failures\":[{\"seed\":");
        put_num(&mut buf, &mut n, seed);
        put(&mut buf, &mut n, b",\"what\":\"memory-corruption: the harness process was killed by signal ");
        put_num(&mut buf, &mut n, sig as u64);
        put(
            &mut buf,
            &mut n,
            b" while this scenario ran (6 = abort from malloc's heap-consistency check, 11 = segfault); no trace was written\"}],\"unresolved_sites\":[]}\n",
        );
        unsafe {
            write(1, buf.as_ptr(), n);
            _exit(1);
        }
    }

    /// called from `build`: remembers which scenario is running and installs the handler once
    pub fn arm(family: &str) -> u64 {
        if SEED0.load(Ordering::Relaxed) == u64::MAX {
            let a: Vec<String> = std::env::args().collect();
            let s0 = a.get(3).and_then(|s| s.parse::<u64>().ok()).unwrap_or(0);
            SEED0.store(s0, Ordering::Relaxed);
            unsafe {
                let b = family.as_bytes();
                let len = b.len().min(16);
                let mut fam = [0u8; 16];
                fam[..len].copy_from_slice(&b[..len]);
                FAMILY = fam;
                FAMILY_LEN = len;
                signal(6, on_signal as *const () as usize);
                signal(11, on_signal as *const () as usize);
            }
        }
        BUILT.fetch_add(1, Ordering::Relaxed) + 1
    }
}

/// Does the tree under test contain the F6 fix (pending_fixes/F6.patch: `Park::subscribe` re-checks the time after it
/// has published the coroutine)? Derived from the source that was compiled in; goes into the scenario header (`f6fix=`)
/// so that the replay uses the matching variant of the model, and decides whether a timed park may be rescued.
pub fn f6_fixed() -> bool {
    let repo = std::env::var("VERIF_REPO").unwrap_or_else(|_| "/repo".into());
    match std::fs::read_to_string(format!("{repo}/src/park.rs")) {
        Ok(src) => match src.find("fn subscribe") {
            Some(i) => src[i..].contains("now() >= deadline"),
            None => false,
        },
        Err(_) => false,
    }
}

/// how one park call is raced:
///  d = 0            untimed, the unparkers are active
///  (d, true)        "time-out wins": short time-out, the unparkers sit this call out
///  (d, false)       "unpark wins": long time-out, the unparkers are active
///  thorough tier only: short time-out AND active unparkers (timer and unparker race for the `take`; this also
///  races the non-atomic `Node.refs` of the timer entry - the known mpsc_list_v1 observation - which can corrupt
///  the heap of the harness process, so the quick tier keeps the two time scales apart)
fn gen_park(rng: &mut Rng, tier: u32, may_be_untimed: bool) -> (u64, bool) {
    let k = rng.below(100);
    if may_be_untimed && k < 45 {
        (0, false)
    } else if k < 70 {
        ([1, 1, 2, 3, 5][rng.below(5) as usize], true)
    } else if tier > 0 && k < 85 {
        ([1, 2, 3][rng.below(3) as usize], false)
    } else {
        // whole-second durations are in the mix (seeded change C08_d: a deadline computed from the sub-second part only):
        // with active unparkers such a park is ended by an unpark after a few milliseconds and must report Ok - a
        // `Timeout` before the duration is the "never early" oracle's business
        if rng.chance(80) {
            ([1000, 2000][rng.below(2) as usize], false)
        } else {
            ([20, 30][rng.below(2) as usize], false)
        }
    }
}

#[derive(Clone, Copy)]
struct Up {
    is_co: bool,
    gap_us: u64,
    /// per-mille probability to unpark an older blocker (blocker family)
    stale: u64,
    seed: u64,
}

fn gen_unparkers(rng: &mut Rng, tier: u32) -> Vec<Up> {
    let n = 1 + rng.below(if tier > 0 { 4 } else { 3 }) as usize;
    (0..n)
        .map(|_| Up {
            is_co: rng.chance(400),
            gap_us: rng.below(400),
            stale: [0, 0, 200][rng.below(3) as usize],
            seed: rng.next(),
        })
        .collect()
}

fn names(ups: &[Up]) -> String {
    ups.iter().map(|u| if u.is_co { 'c' } else { 't' }).collect()
}

/// what the unparkers and the rescuer look at
struct Shared {
    /// number of finished park calls
    progress: AtomicUsize,
    /// the unparkers sit the park call in progress out
    sit_out: AtomicBool,
    /// the park call in progress has a time-out
    timed_now: AtomicBool,
    /// a timed park is never rescued by `main` (tree with the F6 fix, or family `park_f6`): a lost time-out is a hang
    no_timed_rescue: AtomicBool,
    done: AtomicBool,
    /// the blocker of the round in progress (taken away by the parker before it drops its own reference)
    cur: Mutex<Option<(usize, Arc<Blocker>)>>,
    /// all blockers so far (stale unparks go to those that are still alive)
    old: Mutex<Vec<(usize, Weak<Blocker>)>>,
}

fn shared() -> Arc<Shared> {
    Arc::new(Shared {
        progress: AtomicUsize::new(0),
        sit_out: AtomicBool::new(false),
        timed_now: AtomicBool::new(false),
        no_timed_rescue: AtomicBool::new(false),
        done: AtomicBool::new(false),
        cur: Mutex::new(None),
        old: Mutex::new(vec![]),
    })
}

fn pick(sh: &Shared, stale: bool, r: &mut Rng) -> Option<(usize, Arc<Blocker>)> {
    if stale {
        let v = sh.old.lock().unwrap_or_else(|e| e.into_inner());
        if !v.is_empty() {
            let (i, w) = &v[r.below(v.len() as u64) as usize];
            if let Some(b) = w.upgrade() {
                return Some((*i, b));
            }
        }
    }
    sh.cur.lock().unwrap_or_else(|e| e.into_inner()).clone()
}

/// An unparker goes quiet after `MAX_PER_ROUND` unparks without progress of the parker (ONE unpark after the
/// previous park returned is enough on a correct implementation: the token persists). Without this bound a parker
/// that lost its wake-up would be unparked for ever (`swap` finds `state` already set), events would keep flowing and
/// the watchdog could never fire.
const MAX_PER_ROUND: usize = 40;

#[derive(Default)]
struct Quota {
    seen: usize,
    used: usize,
}

impl Quota {
    /// may this unparker still unpark in the current round?
    fn allow(&mut self, sh: &Shared) -> bool {
        let p = sh.progress.load(Ordering::SeqCst) + 1;
        if p != self.seen {
            self.seen = p;
            self.used = 0;
        }
        self.used < MAX_PER_ROUND
    }
    /// an unpark really happened
    fn count(&mut self, did: bool) {
        if did {
            self.used += 1;
        }
    }
}

fn pause(u: &Up, _r: &mut Rng) {
    std::thread::sleep(Duration::from_micros(50 + u.gap_us));
}

/// Coroutine unparkers are short-lived bursts that `main` re-spawns while the parker is not through. They never
/// wait inside the runtime: spinning on `yield_now` starves the worker's global queue (a worker that always finds
/// its local queue non-empty never collects it, scheduler.rs `run_queued_tasks`) and `coroutine::sleep` would add
/// timer-list traffic that is not what this family is about.
struct Bursts {
    live: Vec<Option<coroutine::JoinHandle<()>>>,
    quota: Vec<Quota>,
    gen: usize,
    all: Vec<coroutine::JoinHandle<()>>,
}

impl Bursts {
    fn new(n: usize) -> Self {
        Bursts { live: (0..n).map(|_| None).collect(), quota: (0..n).map(|_| Quota::default()).collect(), gen: 0, all: vec![] }
    }
    fn tick(&mut self, ups: &[Up], sh: &Arc<Shared>, total: usize, unpark: &Arc<dyn Fn(&mut Rng, &Up) -> bool + Send + Sync>) {
        for (i, u) in ups.iter().enumerate() {
            if !u.is_co || sh.sit_out.load(Ordering::SeqCst) {
                continue;
            }
            if let Some(h) = &self.live[i] {
                if !h.is_done() {
                    continue;
                }
            }
            if let Some(h) = self.live[i].take() {
                self.all.push(h);
            }
            if !self.quota[i].allow(sh) || self.quota[i].used >= MAX_PER_ROUND / 3 {
                continue;
            }
            self.quota[i].count(true);
            self.gen += 1;
            let (sh, u, unpark, seed) = (sh.clone(), *u, unpark.clone(), u.seed ^ self.gen as u64);
            let h = unsafe {
                coroutine::Builder::new()
                    .name(format!("u{}.{}", i + 1, self.gen))
                    .spawn(move || {
                        let mut r = Rng::new(seed);
                        for _ in 0..1 + r.below(3) {
                            if sh.done.load(Ordering::SeqCst)
                                || sh.progress.load(Ordering::SeqCst) >= total
                                || sh.sit_out.load(Ordering::SeqCst)
                            {
                                break;
                            }
                            let _ = unpark(&mut r, &u);
                            std::thread::sleep(Duration::from_micros(20 + u.gap_us / 2));
                        }
                    })
                    .unwrap()
            };
            self.live[i] = Some(h);
        }
    }
    fn join(self) {
        for h in self.live.into_iter().flatten().chain(self.all) {
            let _ = h.join();
        }
    }
}

/// main as rescuer: waits until the parker is through; unparks when nothing moved for a long time
fn rescue(sh: &Shared, total: usize, unpark: &dyn Fn(), tick: &mut dyn FnMut()) -> Option<String> {
    let t0 = Instant::now();
    let mut last = sh.progress.load(Ordering::SeqCst);
    let mut since = Instant::now();
    let mut budget = 3 * total + 3;
    while sh.progress.load(Ordering::SeqCst) < total && !sh.done.load(Ordering::SeqCst) {
        tick();
        std::thread::sleep(Duration::from_millis(1));
        let p = sh.progress.load(Ordering::SeqCst);
        if p != last {
            last = p;
            since = Instant::now();
        } else if since.elapsed() > Duration::from_millis(80) && budget > 0 {
            since = Instant::now();
            if sh.timed_now.load(Ordering::SeqCst) && sh.no_timed_rescue.load(Ordering::SeqCst) {
                continue; // its time-out must end it
            }
            budget -= 1;
            unpark();
        } else if budget == 0 {
            return None; // the join below blocks; the watchdog decides
        }
        if t0.elapsed() > Duration::from_secs(20) {
            // harness safety cap (events keep flowing, so the watchdog cannot fire): stop everybody
            sh.done.store(true, Ordering::SeqCst);
            return Some("livelock: the scenario is still producing events after 20 s".to_string());
        }
    }
    None
}

/// Let the runtime threads finish what they do on behalf of this scenario before `run` returns: the last node of a
/// timer interval list is never unlinked, so a time-out that was "deleted" still fires (its `take` finds the slot
/// empty) up to `max_ms` after the last park; outer kernel tails store `wait_kernel := false` after the coroutine
/// has finished. (An operation that is inside its hook when the harness switches logging off would leak the log lock
/// of harness/src/rt.rs.)
fn settle(max_ms: u64) {
    std::thread::sleep(Duration::from_millis(max_ms + 12));
}

// ------------------------------------------------------------------------------------------------ family park

pub fn build(rng: &mut Rng, tier: u32) -> LiveBuilt {
    build_park(rng, tier, Kind::Park)
}

/// F6 scenarios: every round is a short timed park (1-3 ms) that nobody unparks - the unparkers sit out, `main` never
/// rescues -, so the only way out is the time-out. The perturbation (0.5-2 ms sleeps before the hooked
/// `wait_kernel.store` / `wait_co.opt.store` of the kernel tail) stalls the tail between arming the timer and publishing
/// the coroutine. On a tree without pending_fixes/F6.patch the time-out is then lost and the run ends as a hang report;
/// with it the tail's re-check of the time produces the Timeout.
pub fn build_f6(rng: &mut Rng, tier: u32) -> LiveBuilt {
    build_park(rng, tier, Kind::F6)
}

#[derive(Clone, Copy, PartialEq)]
enum Kind {
    Park,
    Sleepers,
    F6,
}

/// Reproducer only (not part of the C02 check, no model): the `park` family with LONG-LIVED coroutine unparkers that
/// pause with `coroutine::sleep(1 ms)`. The `Sleep` timers share the 1 ms interval list of the timer thread with the
/// parker's short time-outs; this variant corrupts the heap of the process now and then (a freed timer-list `Node`
/// is written after free; see pending_fixes/README-C02.md, "timer-node use-after-free").
pub fn build_sleepers(rng: &mut Rng, tier: u32) -> LiveBuilt {
    build_park(rng, tier.max(1), Kind::Sleepers)
}

fn build_park(rng: &mut Rng, tier: u32, kind: Kind) -> LiveBuilt {
    let sleepers = kind == Kind::Sleepers;
    let fam = match kind {
        Kind::Park => "park",
        Kind::Sleepers => "park_sleepers",
        Kind::F6 => "park_f6",
    };
    let fixed = f6_fixed();
    // the parker's name is unique in the process: kernel tails of the previous scenario's parker may still be at work
    // when this one starts (they are recognised as foreign by the replay)
    let pname = format!("c1.{}", crash::arm(fam));
    let rounds = 1 + rng.below(if tier > 0 { 8 } else { 4 }) as usize;
    let durs: Vec<(u64, bool)> = (0..rounds)
        .map(|_| if kind == Kind::F6 { (1 + rng.below(3), true) } else { gen_park(rng, tier, true) })
        .collect();
    let ups = gen_unparkers(rng, tier);
    let max_ms = durs.iter().map(|d| d.0).max().unwrap_or(0);
    let header = format!(
        "family={fam} rounds={rounds} pname=c:{pname} f6fix={} unparkers={}",
        fixed as u8,
        names(&ups)
    );
    LiveBuilt {
        header,
        filter: vec!["src/park.rs", "sync/atomic_dur.rs", "src/cancel.rs"],
        hang_ms: 4000,
        run: Box::new(move || {
            let mut fails = vec![];
            let sh = shared();
            sh.no_timed_rescue.store(fixed || kind == Kind::F6, Ordering::SeqCst);
            let (s2, d2) = (sh.clone(), durs.clone());
            let h = unsafe {
                coroutine::Builder::new()
                    .name(pname.clone())
                    .spawn(move || {
                        for (d, sit) in d2 {
                            s2.sit_out.store(sit, Ordering::SeqCst);
                            s2.timed_now.store(d != 0, Ordering::SeqCst);
                            call("co.park", d, 0);
                            if d == 0 {
                                coroutine::park();
                            } else {
                                coroutine::park_timeout(Duration::from_millis(d));
                            }
                            ret("co.park", 0);
                            s2.progress.fetch_add(1, Ordering::SeqCst);
                        }
                    })
                    .unwrap()
            };
            let co = h.coroutine().clone();
            let c2 = co.clone();
            let unpark: Arc<dyn Fn(&mut Rng, &Up) -> bool + Send + Sync> = Arc::new(move |_r: &mut Rng, _u: &Up| {
                call("co.unpark", 0, 0);
                c2.unpark();
                ret("co.unpark", 0);
                true
            });
            let mut ts = vec![];
            for (i, u) in ups.iter().enumerate() {
                if u.is_co {
                    continue;
                }
                let (sh, u, unpark) = (sh.clone(), *u, unpark.clone());
                ts.push(spawn_actor_thread(&format!("t{}", i + 1), move || {
                    let mut r = Rng::new(u.seed);
                    let mut quota = Quota::default();
                    while !sh.done.load(Ordering::SeqCst) && sh.progress.load(Ordering::SeqCst) < rounds {
                        if !sh.sit_out.load(Ordering::SeqCst) && quota.allow(&sh) {
                            let did = unpark(&mut r, &u);
                            quota.count(did);
                        }
                        pause(&u, &mut r);
                    }
                }));
            }
            let mut bursts = Bursts::new(ups.len());
            let mut sleeping = vec![];
            if sleepers {
                for (i, u) in ups.iter().enumerate().filter(|(_, u)| u.is_co) {
                    let (sh, u, unpark) = (sh.clone(), *u, unpark.clone());
                    sleeping.push(unsafe {
                        coroutine::Builder::new()
                            .name(format!("s{}", i + 1))
                            .spawn(move || {
                                let mut r = Rng::new(u.seed);
                                let mut quota = Quota::default();
                                while !sh.done.load(Ordering::SeqCst) && sh.progress.load(Ordering::SeqCst) < rounds {
                                    if quota.allow(&sh) {
                                        let did = unpark(&mut r, &u);
                                        quota.count(did);
                                    }
                                    if r.chance(300) {
                                        std::thread::sleep(Duration::from_micros(20 + u.gap_us / 2));
                                    }
                                    coroutine::sleep(Duration::from_millis(1));
                                }
                            })
                            .unwrap()
                    });
                }
            }
            if let Some(f) = rescue(&sh, rounds, &|| { let _ = unpark(&mut Rng::new(7), &ups[0]); }, &mut || {
                if !sleepers {
                    bursts.tick(&ups, &sh, rounds, &unpark)
                }
            }) {
                fails.push(f);
            }
            if h.join().is_err() {
                fails.push("parker coroutine panicked".to_string());
            }
            sh.done.store(true, Ordering::SeqCst);
            for t in ts {
                let _ = t.join();
            }
            bursts.join();
            for c in sleeping {
                let _ = c.join();
            }
            drop(unpark);
            call("co.drop", 0, 0);
            drop(co);
            ret("co.drop", 0);
            settle(max_ms);
            let p = sh.progress.load(Ordering::SeqCst);
            if p != rounds {
                fails.push(format!("parker finished {p} of {rounds} rounds"));
            }
            fails
        }),
    }
}

// --------------------------------------------------------------------------------------------- family blocker

fn res_code(r: &Result<(), ParkError>) -> u64 {
    match r {
        Ok(()) => 0,
        Err(ParkError::Timeout) => 1,
        Err(ParkError::Canceled) => 2,
    }
}

pub fn build_blocker(rng: &mut Rng, tier: u32) -> LiveBuilt {
    let pn = crash::arm("blocker");
    let fixed = f6_fixed();
    let rounds = 1 + rng.below(if tier > 0 { 6 } else { 3 }) as usize;
    let in_co = rng.chance(650);
    // per round: 1-2 parks on the fresh blocker; the first may be untimed, later ones are timed
    let plan: Vec<Vec<(u64, bool)>> = (0..rounds)
        .map(|_| {
            let n = 1 + rng.below(4) as usize / 3;
            (0..n).map(|k| gen_park(rng, tier, k == 0)).collect()
        })
        .collect();
    let total: usize = plan.iter().map(|p| p.len()).sum();
    let max_ms = plan.iter().flatten().map(|d| d.0).max().unwrap_or(0);
    let ups = gen_unparkers(rng, tier);
    let pname = if in_co { format!("c1.{pn}") } else { format!("p1.{pn}") };
    let header = format!(
        "family=blocker rounds={rounds} parker={} pname={}{pname} f6fix={} unparkers={}",
        if in_co { "co" } else { "thr" },
        if in_co { "c:" } else { "" },
        fixed as u8,
        names(&ups)
    );
    LiveBuilt {
        header,
        filter: vec!["src/park.rs", "sync/atomic_dur.rs", "src/cancel.rs"],
        hang_ms: 4000,
        run: Box::new(move || {
            let sh = shared();
            // a thread-context blocker wraps a ThreadPark (condvar time-out): never rescued when timed either
            sh.no_timed_rescue.store(fixed || !in_co, Ordering::SeqCst);
            let fails = Arc::new(Mutex::new(Vec::<String>::new()));
            let (s2, f2) = (sh.clone(), fails.clone());
            let parker = move || {
                for (i, parks) in plan.iter().enumerate() {
                    call("blk.new", i as u64, 0);
                    let b = Blocker::current();
                    ret("blk.new", i as u64);
                    s2.sit_out.store(parks[0].1, Ordering::SeqCst);
                    s2.old.lock().unwrap_or_else(|e| e.into_inner()).push((i, Arc::downgrade(&b)));
                    *s2.cur.lock().unwrap_or_else(|e| e.into_inner()) = Some((i, b.clone()));
                    for (k, &(d, sit)) in parks.iter().enumerate() {
                        s2.sit_out.store(sit, Ordering::SeqCst);
                        s2.timed_now.store(d != 0, Ordering::SeqCst);
                        let dur = if d == 0 { None } else { Some(Duration::from_millis(d)) };
                        let t0 = Instant::now();
                        call("blk.park", i as u64, d);
                        let r = b.park(dur);
                        let el = t0.elapsed();
                        ret("blk.park", res_code(&r));
                        match r {
                            Ok(()) => {}
                            Err(ParkError::Timeout) => {
                                if d == 0 {
                                    f2.lock().unwrap_or_else(|e| e.into_inner()).push(format!("round {i}: Timeout from an untimed park"));
                                } else if k == 0 && el < Duration::from_millis(d) {
                                    // exact lower bound for the FIRST park on a fresh blocker only: a later park on
                                    // the same blocker may be ended early by the stale timer of an earlier one (the
                                    // spurious wake a re-used Park is allowed, see the example in Props/C02.lean)
                                    f2.lock().unwrap_or_else(|e| e.into_inner()).push(format!(
                                        "round {i}: Timeout after {} us, before the requested {} ms",
                                        el.as_micros(),
                                        d
                                    ));
                                }
                            }
                            Err(ParkError::Canceled) => {
                                f2.lock().unwrap_or_else(|e| e.into_inner()).push(format!("round {i}: Canceled although nobody cancels"))
                            }
                        }
                        s2.progress.fetch_add(1, Ordering::SeqCst);
                    }
                    call("blk.drop", i as u64, 0);
                    let c = s2.cur.lock().unwrap_or_else(|e| e.into_inner()).take();
                    drop(c);
                    drop(b);
                    ret("blk.drop", 0);
                }
            };
            let mut ts = vec![];
            let mut cs = vec![];
            // Keep the parker's handle alive until the kernel tails are certainly through: `Park::subscribe` still uses
            // the coroutine's `Cancel` (a reference into the handle's allocation) AFTER it has published the coroutine;
            // the `wait_kernel` guard protects the Park, not that allocation. If an unparker keeps the Blocker alive
            // while the woken parker finishes and the last handle is dropped, the tail writes into freed memory
            // (pending_fixes/README-C02.md, "kernel tail uses the coroutine's Cancel after publishing it").
            // `VH_C02_NO_KEEPALIVE=1` exposes it (reproducer).
            let mut keep = None;
            if in_co {
                cs.push(unsafe { coroutine::Builder::new().name(pname.clone()).spawn(parker).unwrap() });
                if std::env::var("VH_C02_NO_KEEPALIVE").is_err() {
                    keep = Some(cs[0].coroutine().clone());
                }
            } else {
                ts.push(spawn_actor_thread(&pname, parker));
            }
            let s3 = sh.clone();
            let unpark: Arc<dyn Fn(&mut Rng, &Up) -> bool + Send + Sync> = Arc::new(move |r: &mut Rng, u: &Up| {
                let stale = r.chance(u.stale);
                if let Some((bi, b)) = pick(&s3, stale, r) {
                    call("blk.unpark", bi as u64, 0);
                    b.unpark();
                    drop(b);
                    ret("blk.unpark", 0);
                    true
                } else {
                    false // no blocker published yet
                }
            });
            for (i, u) in ups.iter().enumerate() {
                if u.is_co {
                    continue;
                }
                let (sh, u, unpark) = (sh.clone(), *u, unpark.clone());
                ts.push(spawn_actor_thread(&format!("t{}", i + 1), move || {
                    let mut r = Rng::new(u.seed);
                    let mut quota = Quota::default();
                    while !sh.done.load(Ordering::SeqCst) && sh.progress.load(Ordering::SeqCst) < total {
                        if !sh.sit_out.load(Ordering::SeqCst) && quota.allow(&sh) {
                            let did = unpark(&mut r, &u);
                            quota.count(did);
                        }
                        pause(&u, &mut r);
                    }
                }));
            }
            let mut out = vec![];
            let mut bursts = Bursts::new(ups.len());
            let fresh = Up { stale: 0, ..ups[0] };
            if let Some(f) = rescue(&sh, total, &|| { let _ = unpark(&mut Rng::new(7), &fresh); }, &mut || {
                bursts.tick(&ups, &sh, total, &unpark)
            }) {
                out.push(f);
            }
            // the parker first: if it hangs the watchdog fires while we wait here
            if in_co {
                if cs.remove(0).join().is_err() {
                    out.push("parker coroutine panicked".to_string());
                }
            } else if ts.remove(0).join().is_err() {
                out.push("parker thread panicked".to_string());
            }
            sh.done.store(true, Ordering::SeqCst);
            for t in ts {
                let _ = t.join();
            }
            for c in cs {
                let _ = c.join();
            }
            bursts.join();
            settle(max_ms);
            drop(keep);
            let p = sh.progress.load(Ordering::SeqCst);
            if p != total {
                out.push(format!("parker finished {p} of {total} parks"));
            }
            out.extend(fails.lock().unwrap_or_else(|e| e.into_inner()).drain(..));
            out
        }),
    }
}
