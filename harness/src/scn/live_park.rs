//! C02: coroutine::park / park_timeout / unpark on the per-coroutine handle (live mode)
use super::{spawn_actor_thread, LiveBuilt};
use crate::rt::{call, ret, Rng};
use may::coroutine;
use std::sync::atomic::{AtomicBool, AtomicUsize, Ordering};
use std::sync::Arc;
use std::time::Duration;

pub fn build(rng: &mut Rng, tier: u32) -> LiveBuilt {
    let rounds = 1 + rng.below(if tier > 0 { 6 } else { 3 }) as usize;
    let nunp = 1 + rng.below(3) as usize;
    let gap_us: Vec<u64> = (0..nunp).map(|_| rng.below(400)).collect();
    let header = format!("family=park rounds={rounds} unparkers={nunp}");
    LiveBuilt {
        header,
        filter: vec!["src/park.rs"],
        hang_ms: 2000,
        run: Box::new(move || {
            let mut fails = vec![];
            let parked_rounds = Arc::new(AtomicUsize::new(0));
            let done = Arc::new(AtomicBool::new(false));
            let pr = parked_rounds.clone();
            let h = unsafe {
                coroutine::Builder::new()
                    .name("c1".into())
                    .spawn(move || {
                        for _ in 0..rounds {
                            call("co.park", 0, 0);
                            coroutine::park();
                            ret("co.park", 0);
                            pr.fetch_add(1, Ordering::SeqCst);
                        }
                    })
                    .unwrap()
            };
            let co = h.coroutine().clone();
            let mut ts = vec![];
            for (i, gap) in gap_us.iter().enumerate() {
                let (co, done, pr, gap) = (co.clone(), done.clone(), parked_rounds.clone(), *gap);
                ts.push(spawn_actor_thread(&format!("t{}", i + 1), move || {
                    // keep unparking until the parker went through all its rounds: every park must return
                    while !done.load(Ordering::SeqCst) && pr.load(Ordering::SeqCst) < rounds {
                        call("co.unpark", 0, 0);
                        co.unpark();
                        ret("co.unpark", 0);
                        std::thread::sleep(Duration::from_micros(50 + gap));
                    }
                }));
            }
            if h.join().is_err() {
                fails.push("parker coroutine panicked".to_string());
            }
            done.store(true, Ordering::SeqCst);
            for t in ts {
                let _ = t.join();
            }
            if parked_rounds.load(Ordering::SeqCst) != rounds {
                fails.push(format!("parker finished {} of {} rounds", parked_rounds.load(Ordering::SeqCst), rounds));
            }
            fails
        }),
    }
}
