//! C12, live half: may::sync::RwLock with coroutine AND thread readers / writers on the real runtime, where 1–2 coroutines
//! are cancelled at seeded moments (typically while blocked in read() / write(), or while giving a read guard back).
//!
//! Actor `k` of the model is coroutine `c<k>` or thread `t<k>` (one index space); `main` (the last model actor) spawns,
//! cancels, joins and does the final probe. Every API call and every guard drop is wrapped in `call/ret`; a call that
//! is left by the cancel panic reports result code 3. A cancelled body then gives its guards back one by one (announced,
//! each under its own catch_unwind – exactly what the unwinding of the cancel panic would do silently) and re-raises
//! the cancel, so that `join()` reports it.
//!
//! Oracles (independent of the model): reader / writer occupancy counters and a payload that a writer tears while it holds
//! the guard (a `try_read` that succeeds while a writer holds the lock is "reader under a writer"); no panic other than
//! the cancel panic out of any call or drop; a guard drop never loses its release (a drop that is left by the cancel panic
//! is reported: defect F1c); after everything is joined and every guard is dropped `try_write` and `try_read` succeed;
//! a coroutine's `join()` returns Cancel iff its body saw the cancel; completion (watchdog).
use super::live_join::{track_gone, wait_gone};
use super::{spawn_actor_thread, LiveBuilt};
use crate::rt::{call, ret, Rng};
use may::coroutine;
use may::sync::{RwLock, RwLockReadGuard, RwLockWriteGuard};
use std::panic::{catch_unwind, resume_unwind, AssertUnwindSafe};
use std::sync::atomic::{AtomicBool, AtomicUsize, Ordering};
use std::sync::{Arc, Mutex as StdMutex, TryLockError};
use std::time::Duration;

#[derive(Clone, Copy, Debug, PartialEq)]
enum Op {
    Read,
    Write,
    TryRead,
    TryWrite,
    Drop,
    Peek,
}

fn letter(o: Op) -> char {
    match o {
        Op::Read => 'R',
        Op::Write => 'W',
        Op::TryRead => 'r',
        Op::TryWrite => 'w',
        Op::Drop => 'd',
        Op::Peek => 'i',
    }
}

enum G {
    R(RwLockReadGuard<'static, i64>),
    W(RwLockWriteGuard<'static, i64>),
}

struct Shared {
    lock: &'static RwLock<i64>,
    readers: AtomicUsize,
    writers: AtomicUsize,
    outstanding: AtomicUsize,
    /// read-guard drops that were left by the cancel panic (F1c)
    lost_drops: AtomicUsize,
    stage: Vec<AtomicUsize>,
    /// the actor is inside a guard drop (the cancellers do not fire then, see `build`)
    in_drop: Vec<AtomicBool>,
    fails: StdMutex<Vec<String>>,
}

type Payload = Box<dyn std::any::Any + Send>;

impl Shared {
    fn fail(&self, s: String) {
        let mut v = self.fails.lock().unwrap_or_else(|e| e.into_inner());
        if v.len() < 8 {
            v.push(s);
        }
    }
    fn enter(&self, w: bool, g: &G) {
        self.outstanding.fetch_add(1, Ordering::SeqCst);
        if w {
            let nw = self.writers.fetch_add(1, Ordering::SeqCst) + 1;
            let nr = self.readers.load(Ordering::SeqCst);
            if nw > 1 {
                self.fail(format!("exclusion violated (two writers): {nw} write guards are held at once"));
            }
            if nr > 0 {
                self.fail(format!("exclusion violated (writer among readers): a write guard was handed out while {nr} read guards are held"));
            }
        } else {
            self.readers.fetch_add(1, Ordering::SeqCst);
            let nw = self.writers.load(Ordering::SeqCst);
            if nw > 0 {
                self.fail(format!("exclusion violated (reader under a writer): a read guard was handed out while {nw} write guards are held"));
            }
        }
        let v = match g {
            G::R(g) => **g,
            G::W(g) => **g,
        };
        if v % 2 != 0 {
            self.fail(format!("torn payload seen under a fresh guard: {v}"));
        }
    }
    fn leave(&self, w: bool) {
        self.outstanding.fetch_sub(1, Ordering::SeqCst);
        if w {
            self.writers.fetch_sub(1, Ordering::SeqCst);
        } else {
            self.readers.fetch_sub(1, Ordering::SeqCst);
        }
    }
}

/// a String / &str payload is an ordinary panic; anything else is the cancel panic (`generator::Error::Cancel`)
fn panic_msg(e: &Payload) -> Option<String> {
    e.downcast_ref::<String>().cloned().or(e.downcast_ref::<&str>().map(|s| s.to_string()))
}

/// Ok(()) = done, Err(payload) = left by the cancel panic
fn acquire(sh: &Shared, op: Op, held: &mut Vec<G>) -> Result<(), Payload> {
    let l = sh.lock;
    let name = match op {
        Op::Read => "rwlock.read",
        Op::Write => "rwlock.write",
        Op::TryRead => "rwlock.try_read",
        _ => "rwlock.try_write",
    };
    call(name, 0, 0);
    let r = catch_unwind(AssertUnwindSafe(|| -> (u64, Option<G>) {
        match op {
            Op::Read => match l.read() {
                Ok(g) => (1, Some(G::R(g))),
                Err(p) => (2, Some(G::R(p.into_inner()))),
            },
            Op::Write => match l.write() {
                Ok(g) => (1, Some(G::W(g))),
                Err(p) => (2, Some(G::W(p.into_inner()))),
            },
            Op::TryRead => match l.try_read() {
                Ok(g) => (1, Some(G::R(g))),
                Err(TryLockError::Poisoned(p)) => (2, Some(G::R(p.into_inner()))),
                Err(TryLockError::WouldBlock) => (0, None),
            },
            _ => match l.try_write() {
                Ok(g) => (1, Some(G::W(g))),
                Err(TryLockError::Poisoned(p)) => (2, Some(G::W(p.into_inner()))),
                Err(TryLockError::WouldBlock) => (0, None),
            },
        }
    }));
    match r {
        Ok((code, g)) => {
            if let Some(mut g) = g {
                let w = matches!(g, G::W(_));
                sh.enter(w, &g);
                if let G::W(g) = &mut g {
                    **g += 1; // odd while a writer is inside
                }
                held.push(g);
            }
            ret(name, code);
            Ok(())
        }
        Err(e) => {
            ret(name, 3);
            if let Some(m) = panic_msg(&e) {
                sh.fail(format!("API call panicked: {name}: {m}"));
            }
            Err(e)
        }
    }
}

/// give one guard back; Err(payload) = the drop itself was left by the cancel panic
fn release(sh: &Shared, k: usize, g: G) -> Result<(), Payload> {
    sh.in_drop[k].store(true, Ordering::SeqCst);
    let r = release1(sh, g);
    sh.in_drop[k].store(false, Ordering::SeqCst);
    r
}

fn release1(sh: &Shared, g: G) -> Result<(), Payload> {
    let w = matches!(g, G::W(_));
    let name = if w { "rwlock.drop_w" } else { "rwlock.drop_r" };
    let mut g = g;
    if let G::W(g) = &mut g {
        **g += 1; // even again
    }
    sh.leave(w);
    call(name, 0, 0);
    match catch_unwind(AssertUnwindSafe(move || drop(g))) {
        Ok(()) => {
            ret(name, 0);
            Ok(())
        }
        Err(e) => {
            ret(name, 3);
            match panic_msg(&e) {
                Some(m) => sh.fail(format!("guard drop panicked: {name}: {m}")),
                None => {
                    sh.lost_drops.fetch_add(1, Ordering::SeqCst);
                    sh.fail(format!("guard drop was left by the cancel panic: {name} never gave back what the guard held"));
                }
            }
            Err(e)
        }
    }
}

fn pause(us: u64) {
    if us > 0 {
        // not a cancel point (a coroutine sleep / yield would be)
        std::thread::sleep(Duration::from_micros(us));
    }
}

/// the body of actor `k`; returns the cancel payload if the body saw the cancel
fn body(sh: &Shared, k: usize, ops: &[Op], hold_us: u64) -> Option<Payload> {
    let mut held: Vec<G> = vec![];
    let mut cancelled: Option<Payload> = None;
    'ops: for op in ops {
        sh.stage[k].fetch_add(1, Ordering::SeqCst);
        let holds_w = held.iter().any(|g| matches!(g, G::W(_)));
        let r = match *op {
            Op::Write | Op::Read => {
                // a thread / coroutine that already holds a guard must not block on the same lock: give guards back first
                let mut r = Ok(());
                while r.is_ok() && !held.is_empty() && (*op == Op::Write || holds_w) {
                    r = release(sh, k, held.remove(0));
                    if !held.iter().any(|g| matches!(g, G::W(_))) && *op == Op::Read {
                        break;
                    }
                }
                r.and_then(|_| acquire(sh, *op, &mut held))
            }
            Op::TryRead | Op::TryWrite => acquire(sh, *op, &mut held),
            Op::Peek => {
                call("rwlock.is_poisoned", 0, 0);
                let p = sh.lock.is_poisoned();
                ret("rwlock.is_poisoned", p as u64);
                Ok(())
            }
            Op::Drop => {
                if held.is_empty() {
                    Ok(())
                } else {
                    release(sh, k, held.remove(0))
                }
            }
        };
        if let Err(e) = r {
            cancelled = Some(e);
            break 'ops;
        }
        if !held.is_empty() {
            pause(hold_us);
        }
    }
    // give everything back (for a cancelled body this is what the unwinding would do)
    while !held.is_empty() {
        if let Err(e) = release(sh, k, held.remove(0)) {
            cancelled.get_or_insert(e);
        }
    }
    sh.stage[k].store(usize::MAX / 2, Ordering::SeqCst);
    cancelled
}

pub fn build(rng: &mut Rng, tier: u32) -> LiveBuilt {
    let na = 2 + rng.below(if tier > 0 { 4 } else { 3 }) as usize;
    let max_ops = if tier > 0 { 7 } else { 5 };
    // scenario shapes: 0 = generated mix; 1 = "first reader blocked behind a writer is cancelled" (then readers and writers
    // go on); 2 = "a cancelled coroutine gives a read guard back while rlock is contended"
    let shape = [0u64, 1, 1, 2, 0][rng.below(5) as usize];
    let mut kinds: Vec<bool> = (0..na).map(|_| rng.chance(600)).collect(); // true = coroutine
    let mut programs: Vec<Vec<Op>> = vec![];
    use Op::*;
    for t in 0..na {
        let nops = 2 + rng.below(max_ops) as usize;
        let mut ops = vec![];
        for _ in 0..nops {
            ops.push(match rng.below(100) {
                0..=29 => Read,
                30..=49 => Write,
                50..=59 => TryRead,
                60..=69 => TryWrite,
                70..=74 => Peek,
                _ => Drop,
            });
        }
        match shape {
            1 => {
                if t == 0 {
                    ops = vec![Write, Peek, Peek, Peek, Drop, Write, Peek, Peek, Peek, Peek, Drop];
                    kinds[0] = false;
                } else if t == 1 {
                    ops = vec![Peek, Read, Drop, Read, Drop];
                    kinds[1] = true;
                } else {
                    ops = vec![Peek, Peek, Peek, TryRead, Drop, TryRead, Drop, TryRead, Peek, Drop, Read, Peek, Drop, TryRead, Drop];
                }
            }
            2 => {
                if t == 0 {
                    ops = vec![Read, Peek, Drop, Read, Drop];
                    kinds[0] = true;
                } else {
                    ops = vec![Read, Drop, Read, Drop, Read, Drop, TryRead, Drop];
                }
            }
            _ => {}
        }
        programs.push(ops);
    }
    if !kinds.iter().any(|c| *c) {
        kinds[0] = true;
    }
    // cancel plan: 1–2 coroutines, each at a seeded stage (op index) plus a seeded delay
    let cos: Vec<usize> = (0..na).filter(|k| kinds[*k]).collect();
    let ncancel = if shape == 0 { rng.below(3) as usize } else { 1 };
    let mut plan: Vec<(usize, usize, u64)> = vec![];
    for i in 0..ncancel.min(cos.len()) {
        let k = match shape {
            1 => 1,
            2 => 0,
            _ => cos[(rng.below(cos.len() as u64) as usize + i) % cos.len()],
        };
        if plan.iter().any(|p| p.0 == k) {
            continue;
        }
        let at = match shape {
            1 => 2,
            2 => 2,
            _ => 1 + rng.below(programs[k].len() as u64) as usize,
        };
        plan.push((k, at, [0u64, 20, 60, 150, 400][rng.below(5) as usize]));
    }
    let hold_us = if shape == 1 { [60u64, 120, 250][rng.below(3) as usize] } else { [0u64, 10, 40, 120][rng.below(4) as usize] };
    let desc: Vec<String> = programs.iter().map(|p| p.iter().map(|o| letter(*o)).collect()).collect();
    let kd: String = kinds.iter().map(|c| if *c { 'c' } else { 't' }).collect();
    let pl: Vec<String> = plan.iter().map(|(k, at, d)| format!("{k}@{at}+{d}")).collect();
    let header = format!(
        "family=rwlock_live live=1 actors={} poisoned=0 shape={shape} kinds={kd} ops={} cancel={}",
        na + 1,
        desc.join(","),
        if pl.is_empty() { "-".to_string() } else { pl.join(",") }
    );
    LiveBuilt {
        header,
        filter: vec!["sync/rwlock.rs", "sync/mutex.rs", "sync/blocking.rs", "sync/poison.rs"],
        hang_ms: std::env::var("VH_HANG_MS").ok().and_then(|s| s.parse().ok()).unwrap_or(3000),
        run: Box::new(move || {
            let lock: &'static RwLock<i64> = Box::leak(Box::new(RwLock::new(0i64))); // tiny, leaked on purpose: guards are 'static
            let sh = Arc::new(Shared {
                lock,
                readers: AtomicUsize::new(0),
                writers: AtomicUsize::new(0),
                outstanding: AtomicUsize::new(0),
                lost_drops: AtomicUsize::new(0),
                stage: (0..na).map(|_| AtomicUsize::new(0)).collect(),
                in_drop: (0..na).map(|_| AtomicBool::new(false)).collect(),
                fails: StdMutex::new(vec![]),
            });
            let gone = Arc::new(StdMutex::new(vec![]));
            let mut cos = vec![];
            let mut ths = vec![];
            let saw: Vec<Arc<AtomicBool>> = (0..na).map(|_| Arc::new(AtomicBool::new(false))).collect();
            for k in 0..na {
                let (sh2, ops, saw2, g2) = (sh.clone(), programs[k].clone(), saw[k].clone(), gone.clone());
                if kinds[k] {
                    let h = unsafe {
                        coroutine::Builder::new()
                            .name(format!("c{k}"))
                            .spawn(move || {
                                track_gone(&g2);
                                if let Some(p) = body(&sh2, k, &ops, hold_us) {
                                    saw2.store(true, Ordering::SeqCst);
                                    resume_unwind(p);
                                }
                            })
                            .unwrap()
                    };
                    cos.push((k, h));
                } else {
                    ths.push(spawn_actor_thread(&format!("t{k}"), move || {
                        if body(&sh2, k, &ops, hold_us).is_some() {
                            sh2.fail(format!("thread t{k} saw a cancel"));
                        }
                    }));
                }
            }
            // the cancellers are not actors: `cancel()` touches nothing of this layer
            let mut cancellers = vec![];
            for (k, at, delay) in plan.clone() {
                if let Some((_, h)) = cos.iter().find(|c| c.0 == k) {
                    let co = h.coroutine().clone();
                    let sh2 = sh.clone();
                    cancellers.push(std::thread::spawn(move || {
                        while sh2.stage[k].load(Ordering::SeqCst) < at {
                            std::thread::sleep(Duration::from_micros(20));
                        }
                        std::thread::sleep(Duration::from_micros(delay));
                        // A `cancel()` that is delivered while the target is PARKED inside a read guard's drop (read_unlock ->
                        // rlock.lock() with cancellation disabled, fix F1c) takes the `b_ignore` path of `Mutex::lock`, which
                        // can lose the wake-up (token consumed by the cancel wake-up before `unparked` is set; reported to the
                        // owner of C05/C11). Cancels that arrive BEFORE the drop starts are the case this family is about.
                        // (`VH_RW_CANCEL_IN_DROP=1` switches the avoidance off: witness runs for that defect)
                        while std::env::var("VH_RW_CANCEL_IN_DROP").is_err() && sh2.in_drop[k].load(Ordering::SeqCst) {
                            std::thread::sleep(Duration::from_micros(10));
                        }
                        unsafe { co.cancel() };
                    }));
                }
            }
            for t in ths {
                let _ = t.join();
            }
            for c in cancellers {
                let _ = c.join();
            }
            for (k, h) in cos {
                let r = h.join();
                let s = saw[k].load(Ordering::SeqCst);
                match (r.is_err(), s) {
                    (true, true) | (false, false) => {}
                    (false, true) => sh.fail(format!("join() of cancelled coroutine c{k} returned Ok")),
                    (true, false) => sh.fail(format!("coroutine c{k} ended by a panic its body did not see")),
                }
            }
            wait_gone(&gone);
            let mut v: Vec<String> = sh.fails.lock().unwrap_or_else(|e| e.into_inner()).clone();
            let out = sh.outstanding.load(Ordering::SeqCst);
            if out != 0 && v.is_empty() {
                v.push(format!("harness: {out} guards unaccounted for"));
            }
            // everything is joined, every guard has been given to drop: the lock must be free again (probe by `main`)
            call("rwlock.try_write", 0, 0);
            match lock.try_write() {
                Ok(g) => {
                    if *g % 2 != 0 {
                        v.push(format!("torn payload at the end: {}", *g));
                    }
                    ret("rwlock.try_write", 1);
                    call("rwlock.drop_w", 0, 0);
                    drop(g);
                    ret("rwlock.drop_w", 0);
                }
                Err(TryLockError::Poisoned(p)) => {
                    ret("rwlock.try_write", 2);
                    v.push("lock poisoned although no write guard was dropped by a panic".into());
                    call("rwlock.drop_w", 0, 0);
                    drop(p.into_inner());
                    ret("rwlock.drop_w", 0);
                }
                Err(TryLockError::WouldBlock) => {
                    ret("rwlock.try_write", 0);
                    v.push("lock not free after all guards were dropped: final try_write reports WouldBlock".into());
                }
            }
            call("rwlock.try_read", 0, 0);
            match lock.try_read() {
                Ok(g) => {
                    ret("rwlock.try_read", 1);
                    call("rwlock.drop_r", 0, 0);
                    drop(g);
                    ret("rwlock.drop_r", 0);
                }
                Err(TryLockError::Poisoned(p)) => {
                    ret("rwlock.try_read", 2);
                    call("rwlock.drop_r", 0, 0);
                    drop(p.into_inner());
                    ret("rwlock.drop_r", 0);
                }
                Err(TryLockError::WouldBlock) => {
                    ret("rwlock.try_read", 0);
                    v.push("lock not free after all guards were dropped: final try_read reports WouldBlock".into());
                }
            }
            v
        }),
    }
}
