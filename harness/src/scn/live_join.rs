//! C01 (join half): a coroutine that yields 0–3 times and then returns a value / panics with a payload / is
//! cancelled, and 1–2 joiners (threads, coroutines or `main`) racing `is_done` / `wait` / `join` with the finish.
//!
//! Coroutine `c<i>` is target `i` of the model; every `join.*` call names its target in `a1`. Bodies announce how
//! they end (`call body.ret v` / `call body.panic p`; a cancelled body announces nothing).
//! Oracles: `join()` returns exactly the value / the payload / Cancel; `is_done() == true`, a returned `wait()` and a
//! returned `join()` are never observed before the body has finished (a drop guard declared first in the body sets a
//! flag when the closure is left); the body ran exactly once; watchdog for completion.
//!
//! Cancelled joiner (`cj=1`, ~30 % of the scenarios): the target runs for 1–4 ms and returns its value; a joiner
//! COROUTINE polls / waits / joins it and is itself cancelled by thread `t8` at a seeded moment (before it starts, on
//! its way into `wait`, while it is blocked there, or after the finish). Oracles: a `wait()`/`join()` that returns has
//! seen the body finished; `join()` never reports Cancel for the (never cancelled) target; the joiner's own handle
//! reports Cancel exactly when the joiner did not reach its end; the target finishes with its value all the same.
//!
//! `VH_JOIN_CONC=1` switches to the defect witness: two actors call `wait()` on the same handle concurrently
//! (`JoinHandle<T>: Sync`), the second `to_wake.store` drops the first blocker and its owner is never woken.
use super::{spawn_actor_thread, LiveBuilt};
use crate::rt::{call, ret, Rng};
use may::coroutine::{self, JoinHandle};
use std::sync::atomic::{AtomicBool, AtomicUsize, Ordering};
use std::sync::{Arc, Mutex};
use std::time::Duration;

struct SetOnDrop(Arc<AtomicBool>);
impl Drop for SetOnDrop {
    fn drop(&mut self) {
        self.0.store(true, Ordering::SeqCst);
    }
}

type Fails = Arc<Mutex<Vec<String>>>;

// a coroutine-local value is destroyed by `Done::drop_coroutine`, i.e. after the finishing side has completed
// `Join::trigger`: the scenario waits for it so that no event of a finishing coroutine leaks into the next scenario
may::coroutine_local!(static GONE: std::cell::RefCell<Option<SetOnDrop>> = std::cell::RefCell::new(None));

/// to be called first thing in every coroutine body
pub fn track_gone(gone: &Arc<Mutex<Vec<Arc<AtomicBool>>>>) {
    let f = Arc::new(AtomicBool::new(false));
    gone.lock().unwrap_or_else(|e| e.into_inner()).push(f.clone());
    GONE.with(|g| *g.borrow_mut() = Some(SetOnDrop(f)));
}

/// wait until every tracked coroutine has been destroyed (the watchdog bounds the wait)
pub fn wait_gone(gone: &Arc<Mutex<Vec<Arc<AtomicBool>>>>) {
    loop {
        if gone.lock().unwrap_or_else(|e| e.into_inner()).iter().all(|f| f.load(Ordering::SeqCst)) {
            return;
        }
        std::thread::sleep(Duration::from_micros(50));
    }
}

fn is_done(h: &JoinHandle<usize>, tgt: u64, fin: &AtomicBool, fails: &Fails) -> bool {
    call("join.is_done", tgt, 0);
    let r = h.is_done();
    let f = fin.load(Ordering::SeqCst);
    ret("join.is_done", r as u64);
    if r && !f {
        fails.lock().unwrap_or_else(|e| e.into_inner()).push(format!("is_done() of c{tgt} returned true before the body had finished"));
    }
    r
}

fn wait(h: &JoinHandle<usize>, tgt: u64, fin: &AtomicBool, fails: &Fails) {
    call("join.wait", tgt, 0);
    h.wait();
    let f = fin.load(Ordering::SeqCst);
    ret("join.wait", 0);
    if !f {
        fails.lock().unwrap_or_else(|e| e.into_inner()).push(format!("wait() on c{tgt} returned before the body had finished"));
    }
}

/// result code: Ok(v) = v, Err(u64 payload p) = 1000 + p, Err(anything else: generator::Error::Cancel) = 9999
fn join(h: JoinHandle<usize>, tgt: u64, fin: &AtomicBool, expect: u64, fails: &Fails) {
    call("join.join", tgt, 0);
    let r = h.join();
    let f = fin.load(Ordering::SeqCst);
    let code = match r {
        Ok(v) => v as u64,
        Err(e) => match e.downcast_ref::<u64>() {
            Some(p) => 1000 + *p,
            None => 9999,
        },
    };
    ret("join.join", code);
    if !f {
        fails.lock().unwrap_or_else(|e| e.into_inner()).push(format!("join() of c{tgt} returned before the body had finished"));
    }
    if code != expect {
        fails.lock().unwrap_or_else(|e| e.into_inner()).push(format!("join() returned a wrong result: c{tgt} gave {code}, expected {expect}"));
    }
}

#[derive(Clone, Copy, PartialEq)]
enum Who {
    Main,
    Thread,
    Co,
}

/// one joiner program on a shared handle: `polls` × is_done (with small pauses), then maybe wait, then is_done again
#[derive(Clone)]
struct Prog {
    who: Who,
    delay_us: u64,
    polls: u64,
    pause_us: u64,
    /// 0 = never wait, 1 = wait only after is_done() was seen true, 2 = wait unconditionally
    wait: u8,
}

fn run_prog(p: &Prog, h: &JoinHandle<usize>, fin: &AtomicBool, fails: &Fails, in_co: bool) {
    let pause = |us: u64| {
        if us == 0 {
            return;
        }
        if in_co && us % 2 == 0 {
            coroutine::yield_now();
        } else {
            std::thread::sleep(Duration::from_micros(us));
        }
    };
    pause(p.delay_us);
    let mut seen = false;
    for _ in 0..p.polls {
        seen = is_done(h, 1, fin, fails);
        if seen {
            break;
        }
        pause(p.pause_us);
    }
    if p.wait == 2 || (p.wait == 1 && seen) {
        wait(h, 1, fin, fails);
        if !is_done(h, 1, fin, fails) {
            fails.lock().unwrap_or_else(|e| e.into_inner()).push("is_done() false after wait() returned".into());
        }
    }
}

pub fn build(rng: &mut Rng, tier: u32) -> LiveBuilt {
    let conc = std::env::var("VH_JOIN_CONC").is_ok();
    let yields = rng.below(4) as usize;
    let kind = match rng.below(10) {
        0..=4 => 0u8, // value
        5..=7 => 1,   // panic with payload
        _ => 2,       // cancelled
    };
    let v = rng.below(1000);
    let p = rng.below(1000);
    let work_us = [0u64, 0, 30, 150][rng.below(4) as usize];
    let spawn_named_stack = rng.chance(250);
    let njoin = 1 + rng.below(2) as usize;
    let who = |rng: &mut Rng| [Who::Main, Who::Thread, Who::Co][rng.below(3) as usize];
    let mut progs = vec![];
    for j in 0..njoin {
        let mut w = who(rng);
        if njoin == 2 && w == Who::Main {
            w = if j == 0 { Who::Thread } else { Who::Co };
        }
        progs.push(Prog {
            who: w,
            delay_us: [0u64, 0, 40, 200, 500][rng.below(5) as usize],
            polls: rng.below(if tier > 0 { 6 } else { 4 }),
            pause_us: [0u64, 20, 51, 100][rng.below(4) as usize],
            // on a shared handle at most one actor may block in wait() before the finish (see the module comment)
            wait: if njoin == 1 || j == 0 || conc { rng.below(3) as u8 } else { rng.below(2) as u8 },
        });
    }
    if conc {
        for p in progs.iter_mut() {
            p.wait = 2;
            p.polls = 0;
        }
    }
    let owner_joins_directly = njoin == 1 && rng.chance(700);
    // cancelled-joiner variant
    let cj = !conc && rng.chance(300);
    let cj_owner = rng.chance(500);
    let cj_cancel_us = [0u64, 60, 200, 500, 1000, 2000, 4000][rng.below(7) as usize];
    let (kind, yields, work_us) = if cj {
        (0u8, 2 + rng.below(4) as usize, [300u64, 500, 800][rng.below(3) as usize])
    } else {
        (kind, yields, work_us)
    };
    if cj {
        progs.truncate(1);
        progs[0].who = Who::Co;
        progs[0].wait = if cj_owner { rng.below(3) as u8 } else { 2 };
        progs[0].polls = rng.below(3);
    }
    let cancel_delay_us = [0u64, 30, 120, 400][rng.below(4) as usize];
    let expect = match kind {
        0 => v,
        1 => 1000 + p,
        _ => 9999,
    };
    let header = format!(
        "family=join kind={kind} yields={yields} joiners={njoin} direct={} conc={} cj={}",
        owner_joins_directly as u8, conc as u8, cj as u8
    );
    LiveBuilt {
        header,
        filter: vec!["src/join.rs", "src/coroutine_impl.rs"],
        hang_ms: 2000,
        run: Box::new(move || {
            let fails: Fails = Arc::new(Mutex::new(vec![]));
            let fin = Arc::new(AtomicBool::new(false));
            let ran = Arc::new(AtomicUsize::new(0));
            let (fin2, ran2) = (fin.clone(), ran.clone());
            let result = Arc::new(AtomicUsize::new(usize::MAX));
            let result2 = result.clone();
            let gone = Arc::new(Mutex::new(vec![]));
            let (g1, g2, g3) = (gone.clone(), gone.clone(), gone.clone());
            let body = move || -> usize {
                track_gone(&g1);
                let _g = SetOnDrop(fin2);
                ran2.fetch_add(1, Ordering::SeqCst);
                for _ in 0..yields {
                    if work_us > 0 {
                        std::thread::sleep(Duration::from_micros(work_us));
                    }
                    coroutine::yield_now();
                }
                match kind {
                    0 => {
                        result2.store(v as usize, Ordering::SeqCst);
                        call("body.ret", v, 0);
                        v as usize
                    }
                    1 => {
                        call("body.panic", p, 0);
                        std::panic::resume_unwind(Box::new(p))
                    }
                    _ => loop {
                        std::thread::sleep(Duration::from_micros(30));
                        coroutine::yield_now();
                    },
                }
            };
            let mut b = coroutine::Builder::new().name("c1".into());
            if spawn_named_stack {
                b = b.stack_size(0x2000 + 0x800);
            }
            let h = unsafe { b.spawn(body).unwrap() };
            let target = h.coroutine().clone();
            let canceller = if kind == 2 {
                Some(spawn_actor_thread("t9", move || {
                    std::thread::sleep(Duration::from_micros(cancel_delay_us));
                    unsafe { target.cancel() };
                }))
            } else {
                None
            };
            if cj {
                let completed = Arc::new(AtomicBool::new(false));
                let p = progs[0].clone();
                let (fin3, fails3, comp3) = (fin.clone(), fails.clone(), completed.clone());
                let mut shared = None;
                let jh = if cj_owner {
                    // the joiner owns the handle: is_done / wait, then join(self)
                    unsafe {
                        coroutine::Builder::new().name("c2".into()).spawn(move || {
                            track_gone(&g2);
                            run_prog(&p, &h, &fin3, &fails3, true);
                            join(h, 1, &fin3, expect, &fails3);
                            comp3.store(true, Ordering::SeqCst);
                            call("body.ret", 0, 0);
                            0usize
                        })
                    }
                    .unwrap()
                } else {
                    let h = Arc::new(h);
                    shared = Some(h.clone());
                    unsafe {
                        coroutine::Builder::new().name("c2".into()).spawn(move || {
                            track_gone(&g2);
                            run_prog(&p, &h, &fin3, &fails3, true);
                            drop(h);
                            comp3.store(true, Ordering::SeqCst);
                            call("body.ret", 0, 0);
                            0usize
                        })
                    }
                    .unwrap()
                };
                let jco = jh.coroutine().clone();
                let t8 = spawn_actor_thread("t8", move || {
                    std::thread::sleep(Duration::from_micros(cj_cancel_us));
                    unsafe { jco.cancel() };
                    // keep the handle of the cancelled coroutine alive a little longer
                    std::thread::sleep(Duration::from_micros(300));
                    drop(jco);
                });
                // the joiner's own handle: Ok(0) if it reached its end, Cancel if it was unwound
                call("join.join", 2, 0);
                let r = jh.join();
                let code = match r {
                    Ok(v) => v as u64,
                    Err(e) => e.downcast_ref::<u64>().map(|p| 1000 + *p).unwrap_or(9999),
                };
                ret("join.join", code);
                let want = if completed.load(Ordering::SeqCst) { 0 } else { 9999 };
                if code != want {
                    fails.lock().unwrap_or_else(|e| e.into_inner()).push(format!(
                        "the handle of the cancelled joiner reported a wrong result: c2 gave {code}, expected {want} (reached its end: {})",
                        want == 0
                    ));
                }
                let _ = t8.join();
                // the target is unaffected: it finishes with its value
                if let Some(h) = shared {
                    match Arc::try_unwrap(h) {
                        Ok(h) => join(h, 1, &fin, expect, &fails),
                        Err(_) => fails.lock().unwrap_or_else(|e| e.into_inner()).push("handle still shared at the end".into()),
                    }
                }
                // nobody may be left who joins the target (its handle died with the cancelled joiner): wait for its
                // end through the body's own flag (the watchdog bounds the wait), then for its destruction
                while !fin.load(Ordering::SeqCst) {
                    std::thread::sleep(Duration::from_micros(50));
                }
                std::thread::sleep(Duration::from_micros(50));
                wait_gone(&gone);
                if result.load(Ordering::SeqCst) != v as usize || !fin.load(Ordering::SeqCst) {
                    fails.lock().unwrap_or_else(|e| e.into_inner()).push("the target did not finish with its value after its joiner was cancelled".into());
                }
            } else if njoin == 1 && owner_joins_directly {
                // the owner of the handle polls / waits and then joins, racing with the finish
                let p = progs[0].clone();
                let (fin, fails2) = (fin.clone(), fails.clone());
                let f = move |in_co: bool| {
                    run_prog(&p, &h, &fin, &fails2, in_co);
                    join(h, 1, &fin, expect, &fails2);
                };
                match progs[0].who {
                    Who::Main => f(false),
                    Who::Thread => {
                        let _ = spawn_actor_thread("t1", move || f(false)).join();
                    }
                    Who::Co => {
                        let jh = unsafe {
                            coroutine::Builder::new()
                                .name("c2".into())
                                .spawn(move || {
                                    track_gone(&g2);
                                    f(true);
                                    call("body.ret", 0, 0);
                                    0usize
                                })
                                .unwrap()
                        };
                        let nofin = AtomicBool::new(true);
                        join(jh, 2, &nofin, 0, &fails);
                    }
                }
            } else {
                let h = Arc::new(h);
                let mut ths = vec![];
                let mut cos = vec![];
                let mut mains = vec![];
                for (j, p) in progs.iter().enumerate() {
                    let (p, h, fin, fails2) = (p.clone(), h.clone(), fin.clone(), fails.clone());
                    let g3 = g3.clone();
                    match p.who {
                        Who::Main => mains.push(p),
                        Who::Thread => ths.push(spawn_actor_thread(&format!("t{}", j + 1), move || {
                            run_prog(&p, &h, &fin, &fails2, false);
                            drop(h);
                        })),
                        Who::Co => cos.push((
                            j + 2,
                            unsafe {
                                coroutine::Builder::new()
                                    .name(format!("c{}", j + 2))
                                    .spawn(move || {
                                        track_gone(&g3);
                                        run_prog(&p, &h, &fin, &fails2, true);
                                        drop(h);
                                        call("body.ret", 0, 0);
                                        0usize
                                    })
                                    .unwrap()
                            },
                        )),
                    }
                }
                for p in mains {
                    run_prog(&p, &h, &fin, &fails, false);
                }
                for t in ths {
                    let _ = t.join();
                }
                let nofin = AtomicBool::new(true);
                for (id, jh) in cos {
                    join(jh, id as u64, &nofin, 0, &fails);
                }
                // everybody else is done with the handle: the owner joins
                match Arc::try_unwrap(h) {
                    Ok(h) => join(h, 1, &fin, expect, &fails),
                    Err(_) => fails.lock().unwrap_or_else(|e| e.into_inner()).push("handle still shared at the end".into()),
                }
            }
            if let Some(c) = canceller {
                let _ = c.join();
            }
            wait_gone(&gone);
            if ran.load(Ordering::SeqCst) != 1 {
                fails.lock().unwrap_or_else(|e| e.into_inner()).push(format!("body of c1 ran {} times", ran.load(Ordering::SeqCst)));
            }
            let r = fails.lock().unwrap_or_else(|e| e.into_inner()).clone();
            r
        }),
    }
}
