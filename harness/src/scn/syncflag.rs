//! C10: may::sync::SyncFlag in thread context (det mode)
//!
//! ops per thread: fire / wait / wait_timeout(d) / is_fired. Time-outs are virtual (`timeout_permille`).
//!
//! An untimed `wait` is only generated when some thread fires before any untimed wait of its own, so a correct
//! flag never deadlocks (a hang is reported by the controller's deadlock detector).
//!
//! Oracles (plain std atomics; the det controller runs one actor at a time):
//!  * latch: once `fire()` has returned, or some `is_fired()` / wait has returned true, every later
//!    `is_fired()` returns true and every wait / wait_timeout that *starts* later returns true
//!  * soundness: `is_fired()` / `wait_timeout()` return true only after some `fire()` has been called
//!  * untimed waits return (deadlock detector)
use super::Built;
use crate::rt::{call, ret, Actor, Rng};
use may::sync::SyncFlag;
use std::sync::atomic::{AtomicBool, Ordering};
use std::sync::{Arc, Mutex as StdMutex};
use std::time::Duration;

#[derive(Clone, Copy, Debug, PartialEq)]
enum Op {
    Fire,
    Wait,
    WaitTimeout(u64),
    IsFired,
}

fn letter(o: &Op) -> String {
    match o {
        Op::Fire => "F".into(),
        Op::Wait => "W".into(),
        Op::WaitTimeout(d) => format!("T{d}"),
        Op::IsFired => "I".into(),
    }
}

pub fn build(rng: &mut Rng, tier: u32) -> Built {
    let nt = 2 + rng.below(if tier > 0 { 4 } else { 3 }) as usize;
    let max_ops = if tier > 0 { 5 } else { 3 };
    let durs = [0u64, 1, 1_000, 1_500_000, 10_000_000];
    let flavour = rng.below(3);
    let mut ops: Vec<Vec<Op>> = (0..nt)
        .map(|_| {
            let nops = 1 + rng.below(max_ops) as usize;
            (0..nops)
                .map(|_| {
                    let r = rng.below(100);
                    let d = durs[rng.below(durs.len() as u64) as usize];
                    match flavour {
                        0 => match r {
                            0..=54 => Op::WaitTimeout(d),
                            55..=74 => Op::Fire,
                            _ => Op::IsFired,
                        },
                        _ => match r {
                            0..=34 => Op::Wait,
                            35..=59 => Op::WaitTimeout(d),
                            60..=79 => Op::Fire,
                            _ => Op::IsFired,
                        },
                    }
                })
                .collect()
        })
        .collect();
    // an untimed wait needs a fire that cannot itself be blocked behind an untimed wait
    let has_untimed = ops.iter().any(|l| l.contains(&Op::Wait));
    let safe_fire = ops.iter().any(|l| {
        let first_wait = l.iter().position(|o| *o == Op::Wait).unwrap_or(l.len());
        l[..first_wait].contains(&Op::Fire)
    });
    if has_untimed && !safe_fire {
        let t = rng.below(nt as u64) as usize;
        let first_wait = ops[t].iter().position(|o| *o == Op::Wait).unwrap_or(ops[t].len());
        let pos = rng.below(first_wait as u64 + 1) as usize;
        ops[t].insert(pos, Op::Fire);
    }
    let desc: Vec<String> = ops.iter().map(|l| l.iter().map(letter).collect::<Vec<_>>().join("")).collect();

    let flag = Arc::new(SyncFlag::new());
    let fire_called = Arc::new(AtomicBool::new(false));
    let latched = Arc::new(AtomicBool::new(false)); // fire returned, or the flag was observed fired
    let viol: Arc<StdMutex<Vec<String>>> = Arc::new(StdMutex::new(vec![]));
    let mut actors: Vec<Actor> = vec![];
    let mut names = vec![];
    for (t, l) in ops.into_iter().enumerate() {
        let (flag, fire_called, latched, viol) = (flag.clone(), fire_called.clone(), latched.clone(), viol.clone());
        names.push(format!("t{t}"));
        actors.push(Box::new(move || {
            let observe = |what: &str, before: bool, r: bool| {
                if before && !r {
                    viol.lock().unwrap().push(format!("latch broken: {what} returned false after the flag was fired"));
                }
                if r {
                    if !fire_called.load(Ordering::SeqCst) {
                        viol.lock().unwrap().push(format!("{what} returned true although fire() was never called"));
                    }
                    latched.store(true, Ordering::SeqCst);
                }
            };
            for op in l {
                match op {
                    Op::Fire => {
                        fire_called.store(true, Ordering::SeqCst);
                        call("syncflag.fire", 0, 0);
                        flag.fire();
                        latched.store(true, Ordering::SeqCst);
                        ret("syncflag.fire", 0);
                    }
                    Op::Wait => {
                        call("syncflag.wait", 0, 0);
                        flag.wait();
                        observe("wait", false, true);
                        ret("syncflag.wait", 1);
                    }
                    Op::WaitTimeout(d) => {
                        let before = latched.load(Ordering::SeqCst);
                        call("syncflag.wait_timeout", d, 0);
                        let r = flag.wait_timeout(Duration::from_nanos(d));
                        observe("wait_timeout", before, r);
                        ret("syncflag.wait_timeout", r as u64);
                    }
                    Op::IsFired => {
                        let before = latched.load(Ordering::SeqCst);
                        call("syncflag.is_fired", 0, 0);
                        let r = flag.is_fired();
                        observe("is_fired", before, r);
                        ret("syncflag.is_fired", r as u64);
                    }
                }
            }
        }));
    }
    let (flag2, fc2, viol2) = (flag.clone(), fire_called.clone(), viol.clone());
    Built {
        header: format!("family=syncflag actors={} ops={}", nt, desc.join(",")),
        names,
        actors,
        check: Box::new(move |r| {
            let mut v = viol2.lock().unwrap().clone();
            if r.deadlock.is_none() && !r.budget_exceeded && r.panics.is_empty() {
                let f = flag2.is_fired();
                if f != fc2.load(Ordering::SeqCst) {
                    v.push(format!("at the end is_fired() = {f} but fire() called = {}", !f));
                }
            }
            v
        }),
        filter: vec!["sync/sync_flag.rs", "sync/blocking.rs"],
        timeout_permille: 120,
    }
}
