//! C11: may::sync::Barrier in thread context (det mode)
//!
//! `n` threads, ONE `Barrier::new(n)` re-used for `g` rounds (1-4, thorough 1-5) by each thread back to back. The trace
//! contains the hooked accesses to the barrier's lock-protected state (`sync.barrier.count`, `sync.barrier.generation_id`,
//! filter `sync/barrier.rs`) next to the mutex / condvar / blocker events. Oracles (independent of the model): exactly one leader per
//! round; when a thread comes out of round `r` all `n` threads have arrived in round `r` (arrival counter sampled
//! after the return); nobody is left behind (deadlock detector); the barrier is reused for every round.
use super::Built;
use crate::rt::{call, ret, Actor, Rng};
use may::sync::Barrier;
use std::sync::atomic::{AtomicUsize, Ordering};
use std::sync::Arc;

pub fn build(rng: &mut Rng, tier: u32) -> Built {
    let n = 1 + rng.below(if tier > 0 { 5 } else { 4 }) as usize;
    // one barrier is re-used for every round: 3 and more generations are common, the scheduler lets the leader race ahead
    let rounds = 1 + rng.below(if tier > 0 { 5 } else { 4 }) as usize;
    build_with(n, rounds, "barrier")
}

/// family `barrier_small`: 2 parties x 2-4 generations (two thirds) or 3 parties x 2 generations, small enough for the
/// systematic exploration (`detx`: every schedule with at most 2 preemptions – the leader racing ahead into the next
/// generation needs none)
pub fn build_small(rng: &mut Rng, _tier: u32) -> Built {
    if rng.below(3) < 2 {
        build_with(2, 2 + rng.below(3) as usize, "barrier_small")
    } else {
        build_with(3, 2, "barrier_small")
    }
}

fn build_with(n: usize, rounds: usize, family: &str) -> Built {
    let bar = Arc::new(Barrier::new(n));
    let arrived: Arc<Vec<AtomicUsize>> = Arc::new((0..rounds).map(|_| AtomicUsize::new(0)).collect());
    let leaders: Arc<Vec<AtomicUsize>> = Arc::new((0..rounds).map(|_| AtomicUsize::new(0)).collect());
    let passed: Arc<Vec<AtomicUsize>> = Arc::new((0..rounds).map(|_| AtomicUsize::new(0)).collect());
    let early = Arc::new(AtomicUsize::new(0));
    let mut names = vec![];
    let mut actors: Vec<Actor> = vec![];
    for t in 0..n {
        names.push(format!("t{t}"));
        let (bar, arrived, leaders, passed, early) = (bar.clone(), arrived.clone(), leaders.clone(), passed.clone(), early.clone());
        actors.push(Box::new(move || {
            for r in 0..rounds {
                arrived[r].fetch_add(1, Ordering::SeqCst);
                call("barrier.wait", r as u64, 0);
                let res = bar.wait();
                // sampled before the return marker: everybody of this round must have arrived
                if arrived[r].load(Ordering::SeqCst) != n {
                    early.fetch_add(1, Ordering::SeqCst);
                }
                if res.is_leader() {
                    leaders[r].fetch_add(1, Ordering::SeqCst);
                }
                passed[r].fetch_add(1, Ordering::SeqCst);
                ret("barrier.wait", res.is_leader() as u64);
            }
        }));
    }
    Built {
        header: format!("family={} actors={} parties={} rounds={}", family, n, n, rounds),
        names,
        actors,
        check: Box::new(move |r| {
            let mut v = vec![];
            if early.load(Ordering::SeqCst) > 0 {
                v.push(format!("early release: {} returns from a generation before all {} parties had arrived", early.load(Ordering::SeqCst), n));
            }
            let complete = r.deadlock.is_none() && !r.budget_exceeded && r.panics.is_empty();
            for g in 0..rounds {
                let l = leaders[g].load(Ordering::SeqCst);
                let p = passed[g].load(Ordering::SeqCst);
                if l > 1 || (complete && l != 1) || (p == n && l != 1) {
                    v.push(format!("leaders: generation {g} has {l} leaders ({p} of {n} parties passed)"));
                }
                if complete && p != n {
                    v.push(format!("left behind: generation {g}, only {p} of {n} parties passed"));
                }
            }
            v
        }),
        filter: vec!["sync/condvar.rs", "sync/mutex.rs", "sync/blocking.rs", "sync/barrier.rs"],
        timeout_permille: 0,
    }
}
