//! C08 (ii): the REAL `TimeOutList<usize>` driven directly under the det controller and the virtual clock.
//!
//! Actor `t0` is the (single) consumer: it moves the virtual clock, calls `schedule_timer(clock, f)` and removes
//! timers through their handles (what the timer thread does with its remove list); `t1..` are adders calling
//! `add_timer` concurrently. Hooked operations of src/timeout_list.rs (list, heap, map, `in_use`) are the
//! schedule points and the trace the Lean model replays (`Model/Time/TimeoutListReplay.lean`).
//!
//! Oracles (virtual time, independent of the model and of the hooks):
//!   * never early   : a handler runs only inside a `schedule_timer(now)` with `now >= deadline` of its entry
//!   * at most once  : no entry fires twice, none fires after a successful `remove`
//!   * prompt        : when `schedule_timer(now)` returns, every entry whose `add_timer` had returned before the
//!                     call, with `deadline <= now`, has fired or was removed
//!   * delay sane    : `Some(d)`: `d > 0` and `now + d <=` every deadline of such a (still pending) entry;
//!                     `None`: no such entry is pending
//! `add_timer` reads the clock before it links the entry, so two concurrent adders of the same interval may queue
//! their entries against deadline order when the clock moves in between; the list is FIFO and only its oldest
//! entry is examined, so the later-queued entry waits for the one ahead of it (model: `skew`). The prompt / delay
//! oracles therefore excuse an entry x exactly when an entry y of the same interval whose `add_timer` was called
//! before x's returned (it may be ahead of x) has a later deadline (same interval and a later deadline: y read the
//! clock after x, so the two calls overlapped and the clock moved in between). The second excuse is the
//! install window: only the adder whose entry became the head of its list installs the list in the heap, so x is
//! not yet the timer list's responsibility while such a y's `add_timer` has not returned when the call starts.
use super::Built;
use crate::rt::{call, clock, clock_set, ret, ret2, Actor, Rng};
use may::verif::export::{TimeOutList, TimeoutHandle};
use std::sync::{Arc, Mutex};
use std::time::Duration;

#[derive(Clone, Debug)]
enum Rec {
    AddCall { id: usize, deadline: u64, interval: u64 },
    AddRet { id: usize },
    SchedCall,
    Fire { id: usize, now: u64 },
    SchedRet { now: u64, r: Option<u64> },
    Removed { id: usize },
}

#[derive(Clone, Copy, Debug)]
enum SOp {
    /// move the clock: 0 = to the earliest pending deadline, 1 = one ns before it, 2 = one ns after it, 3 = by `x`
    Advance(u8, u64),
    Sched,
    Remove(u64),
}

struct Shared {
    tl: TimeOutList<usize>,
    log: Mutex<Vec<Rec>>,
    handles: Mutex<Vec<(usize, TimeoutHandle<usize>)>>,
}
// the handles are only touched under the det baton (one thread at a time)
unsafe impl Sync for Shared {}
unsafe impl Send for Shared {}

pub fn build(rng: &mut Rng, tier: u32) -> Built {
    let nadd = 1 + rng.below(if tier > 0 { 4 } else { 3 }) as usize;
    let max_adds = if tier > 0 { 6 } else { 4 };
    // a small palette so that equal and different intervals, zero and sub-ms values all occur
    let palette: Vec<u64> = {
        let base = [0u64, 1, 999_999, 1_000_000, 1_000_001, 2_000_000, 5_000_000, 1_500_000];
        let k = 2 + rng.below(3) as usize;
        (0..k).map(|_| base[rng.below(base.len() as u64) as usize]).collect()
    };
    let sh = Arc::new(Shared {
        tl: TimeOutList::new(),
        log: Mutex::new(vec![]),
        handles: Mutex::new(vec![]),
    });
    let mut names = vec!["t0".to_string()];
    let mut actors: Vec<Actor> = vec![];
    let mut total_adds = 0usize;
    let mut adders: Vec<Actor> = vec![];
    let mut next_id = 1usize;
    for t in 0..nadd {
        let n = 1 + rng.below(max_adds) as usize;
        let ops: Vec<(usize, u64)> = (0..n)
            .map(|_| {
                let id = next_id;
                next_id += 1;
                (id, palette[rng.below(palette.len() as u64) as usize])
            })
            .collect();
        total_adds += n;
        names.push(format!("t{}", t + 1));
        let sh = sh.clone();
        adders.push(Box::new(move || {
            for (id, d) in ops {
                let now = clock().unwrap_or(0);
                sh.log.lock().unwrap().push(Rec::AddCall { id, deadline: now + d, interval: d });
                call("tl.add", d, id as u64);
                let (h, is_head) = sh.tl.add_timer(Duration::from_nanos(d), id);
                ret("tl.add", is_head as u64);
                sh.log.lock().unwrap().push(Rec::AddRet { id });
                sh.handles.lock().unwrap().push((id, h));
            }
        }));
    }
    // the consumer's op list
    let nsops = total_adds * 2 + 3 + rng.below(4) as usize;
    let mut sops: Vec<SOp> = (0..nsops)
        .map(|_| match rng.below(10) {
            0..=2 => SOp::Advance(rng.below(3) as u8, 0),
            3 => SOp::Advance(3, rng.below(3_000_000)),
            4..=7 => SOp::Sched,
            _ => SOp::Remove(rng.next()),
        })
        .collect();
    sops.push(SOp::Advance(3, 20_000_000));
    sops.push(SOp::Sched);
    let sh0 = sh.clone();
    actors.push(Box::new(move || {
        let sh = sh0;
        for op in sops {
            match op {
                SOp::Advance(kind, x) => {
                    let now = clock().unwrap_or(0);
                    // earliest deadline that is still pending according to the oracle log
                    let target = {
                        let log = sh.log.lock().unwrap();
                        let mut dl: Vec<(usize, u64)> = vec![];
                        for r in log.iter() {
                            match r {
                                Rec::AddCall { id, deadline, .. } => dl.push((*id, *deadline)),
                                Rec::Fire { id, .. } | Rec::Removed { id } => dl.retain(|(i, _)| i != id),
                                _ => {}
                            }
                        }
                        dl.iter().map(|(_, d)| *d).min()
                    };
                    let to = match (kind, target) {
                        (0, Some(t)) => t,
                        (1, Some(t)) => t.saturating_sub(1),
                        (2, Some(t)) => t + 1,
                        _ => now + x,
                    };
                    if to > now {
                        call("clock.set", to, 0);
                        clock_set(to);
                        ret("clock.set", 0);
                    }
                }
                SOp::Sched => {
                    let now = clock().unwrap_or(0);
                    sh.log.lock().unwrap().push(Rec::SchedCall);
                    call("tl.schedule", now, 0);
                    let shf = sh.clone();
                    let f = move |id: usize| {
                        call("tl.fire", id as u64, 0);
                        shf.log.lock().unwrap().push(Rec::Fire { id, now });
                    };
                    let r = sh.tl.schedule_timer(now, &f);
                    match r {
                        Some(d) => ret2("tl.schedule", 1, d),
                        None => ret2("tl.schedule", 0, 0),
                    }
                    sh.log.lock().unwrap().push(Rec::SchedRet { now, r });
                }
                SOp::Remove(x) => {
                    let picked = {
                        let mut hs = sh.handles.lock().unwrap();
                        if hs.is_empty() {
                            None
                        } else {
                            let i = (x % hs.len() as u64) as usize;
                            Some(hs.swap_remove(i))
                        }
                    };
                    if let Some((id, h)) = picked {
                        call("tl.remove", id as u64, 0);
                        let r = h.remove();
                        ret("tl.remove", r.is_some() as u64);
                        if r.is_some() {
                            sh.log.lock().unwrap().push(Rec::Removed { id });
                        }
                    }
                }
            }
        }
    }));
    actors.extend(adders);
    let shc = sh.clone();
    Built {
        header: format!("family=timeout_list actors={} adds={} now0=1000000000", nadd + 1, total_adds),
        names,
        actors,
        check: Box::new(move |r| {
            let mut v = vec![];
            let log = shc.log.lock().unwrap().clone();
            // per entry: deadline, interval, log index of the add's call / return, fired?, removed?
            #[derive(Clone, Copy)]
            struct E {
                dl: u64,
                iv: u64,
                call: usize,
                ret: Option<usize>,
                fired: bool,
                removed: bool,
            }
            let mut st: std::collections::BTreeMap<usize, E> = Default::default();
            // per schedule call: the ids whose add had returned before the call
            let mut before: Vec<usize> = vec![];
            let mut callidx = 0usize;
            for (k, rec) in log.iter().enumerate() {
                match rec {
                    Rec::AddCall { id, deadline, interval } => {
                        st.insert(*id, E { dl: *deadline, iv: *interval, call: k, ret: None, fired: false, removed: false });
                    }
                    Rec::AddRet { id } => st.get_mut(id).unwrap().ret = Some(k),
                    Rec::SchedCall => {
                        callidx = k;
                        before = st.iter().filter(|(_, s)| s.ret.is_some()).map(|(i, _)| *i).collect();
                    }
                    Rec::Fire { id, now } => match st.get_mut(id) {
                        None => v.push(format!("handler ran for an unknown timer {id}")),
                        Some(s) => {
                            if s.dl > *now {
                                v.push(format!(
                                    "timer fired early: entry {id} with deadline {} fired by schedule_timer({now}), {} ns too soon",
                                    s.dl,
                                    s.dl - now
                                ));
                            }
                            if s.fired {
                                v.push(format!("timer fired twice: entry {id}"));
                            }
                            if s.removed {
                                v.push(format!("timer fired after it was removed: entry {id}"));
                            }
                            s.fired = true;
                        }
                    },
                    Rec::Removed { id } => {
                        let s = st.get_mut(id).unwrap();
                        if s.fired {
                            v.push(format!("remove returned the data of entry {id}, which had already fired"));
                        }
                        s.removed = true;
                    }
                    Rec::SchedRet { now, r } => {
                        let pending: Vec<(usize, E)> = before
                            .iter()
                            .filter(|i| !st[i].fired && !st[i].removed)
                            .map(|i| (*i, st[i]))
                            .collect();
                        // an entry possibly queued ahead of x (same interval, its add was called before x's returned),
                        // still pending, with a deadline later than `t`
                        let blocked = |x: &E, xid: usize, t: u64| {
                            st.iter().any(|(yid, y)| {
                                *yid != xid
                                    && y.iv == x.iv
                                    && y.call < x.ret.unwrap()
                                    && (y.dl > t || y.ret.map(|r| r > callidx).unwrap_or(true))
                            })
                        };
                        for (id, x) in &pending {
                            if x.dl <= *now && !blocked(x, *id, *now) {
                                v.push(format!(
                                    "due timer not fired: entry {id} (deadline {}, added before the call) is still pending after schedule_timer({now}) returned {r:?}",
                                    x.dl
                                ));
                            }
                        }
                        match r {
                            Some(0) => v.push(format!("schedule_timer({now}) returned a zero delay")),
                            Some(d) => {
                                for (id, x) in &pending {
                                    if x.dl > *now && now + d > x.dl && !blocked(x, *id, x.dl) {
                                        v.push(format!(
                                            "next-expiry too late: schedule_timer({now}) says sleep {d} ns but entry {id} is due at {} ({} ns earlier)",
                                            x.dl,
                                            now + d - x.dl
                                        ));
                                    }
                                }
                            }
                            None => {
                                if let Some((id, x)) = pending.iter().find(|(id, x)| !blocked(x, *id, u64::MAX)) {
                                    {
                                        v.push(format!(
                                            "timer not installed: schedule_timer({now}) returned None (sleep for ever) but entry {id} (deadline {}) is pending",
                                            x.dl
                                        ));
                                    }
                                }
                            }
                        }
                    }
                }
            }
            if r.deadlock.is_none() && !r.budget_exceeded && r.panics.is_empty() {
                // the run ended with the clock moved far ahead and a final schedule_timer by t0; entries added after
                // that call may legitimately be pending, everything else was covered by the per-call oracle
            }
            // release the handles on this thread (the run is over, no contention)
            shc.handles.lock().unwrap().clear();
            v.truncate(6);
            v
        }),
        filter: vec!["timeout_list.rs"],
        timeout_permille: 0,
    }
}
