//! C06 / C07: may::sync::mpsc with thread endpoints (det mode)
//!
//! One receiver actor, 1..4 sender actors (the receiver actor may hold a Sender as well). The channel and the
//! initial handles are created by the (untraced) set-up; the header tells the model who holds what. Every actor
//! runs a seeded op list: send / clone / drop of Sender handles at arbitrary positions, try_recv / recv /
//! recv_timeout (virtual time-outs), a final drain (`recv` until Disconnected, i.e. the iterator) or an early drop
//! of the Receiver (then later sends must fail and the leftovers are dropped by the drain / by `Drop for InnerQueue`).
//! A correct channel never deadlocks here: every sender actor finishes and drops all its handles.
use super::ch_util::*;
use super::Built;
use crate::rt::{call, ret, Actor, Rng};
use may::sync::{mpsc, Blocker};
use std::sync::atomic::{AtomicBool, Ordering};
use std::sync::mpsc::{RecvTimeoutError, TryRecvError};
use std::sync::{Arc, Mutex as StdMutex};
use std::time::Duration;

#[derive(Clone, Copy, Debug, PartialEq)]
enum Op {
    Send,
    Clone,
    DropTx,
    TryRecv,
    Recv,
    RecvTimeout,
    Drain,
    DropRx,
    /// harness gate (not a channel operation): wait until the receiver has got everything that was sent
    GateWait,
    GateOpen,
}

fn letter(o: Op) -> char {
    match o {
        Op::Send => 's',
        Op::Clone => 'c',
        Op::DropTx => 'x',
        Op::TryRecv => 't',
        Op::Recv => 'r',
        Op::RecvTimeout => 'w',
        Op::Drain => 'D',
        Op::DropRx => 'X',
        Op::GateWait => 'g',
        Op::GateOpen => 'G',
    }
}

/// op list of an actor that starts with `h` Sender handles: ends with all of them dropped
fn sender_ops(rng: &mut Rng, mut h: usize, n: usize, bulk: usize, gated: bool) -> Vec<Op> {
    let mut ops = vec![];
    for _ in 0..n {
        if h == 0 {
            break;
        }
        let c = rng.below(100);
        if c < 60 {
            ops.push(Op::Send);
        } else if c < 80 && h < 3 {
            ops.push(Op::Clone);
            h += 1;
        } else if c >= 80 && (!gated || h > 1) {
            ops.push(Op::DropTx);
            h -= 1;
        } else {
            ops.push(Op::Send);
        }
    }
    if h > 0 {
        for _ in 0..bulk {
            ops.push(Op::Send);
        }
    }
    if gated {
        ops.push(Op::GateWait);
    }
    for _ in 0..h {
        ops.push(Op::DropTx);
    }
    ops
}

pub fn build(rng: &mut Rng, tier: u32) -> Built {
    reset_drops();
    let ns = 1 + rng.below(if tier > 0 { 4 } else { 3 }) as usize; // pure sender actors
    let na = ns + 1;
    let rxa = rng.below(na as u64) as usize; // the actor that holds the Receiver
    let max_ops = if tier > 0 { 7 } else { 4 };
    let (tx0, rx0) = mpsc::channel::<Msg>();
    let hist: Hist = Arc::new(StdMutex::new(vec![]));
    let rx_gone = Arc::new(AtomicBool::new(false));
    let created = Arc::new(StdMutex::new(Vec::<usize>::new()));
    let mut rx_slot = Some(rx0);
    let mut actors: Vec<Actor> = vec![];
    let mut names = vec![];
    let mut desc = vec![];
    let mut txh = vec![];
    let mut all_ops: Vec<Vec<Op>> = vec![];
    let mut drain = false;
    // gated variant: every sender keeps a handle until the receiver has received everything, so a lost wake-up
    // cannot be masked by the wake-up of the last Sender's drop: it shows as a deadlock
    let gated = rng.chance(350);
    let gates: Vec<Arc<Blocker>> = (0..na).map(|_| Arc::new(Blocker::new(false))).collect();
    let mut total_sends = 0usize;
    let mut rx_ops_at = 0usize;
    // one sender in the thorough tier may send more than one queue block (64 slots) in a row
    let bulk_actor = if tier > 0 && rng.chance(150) { Some(rng.below(na as u64) as usize) } else { None };
    for a in 0..na {
        let is_rx = a == rxa;
        let h0 = if is_rx { (!gated && rng.chance(250)) as usize } else { 1 };
        txh.push(h0);
        let bulk = if bulk_actor == Some(a) && h0 > 0 { 60 + rng.below(20) as usize } else { 0 };
        let nops = 1 + rng.below(max_ops) as usize;
        let mut ops = if h0 > 0 { sender_ops(rng, h0, nops, bulk, gated) } else { vec![] };
        total_sends += ops.iter().filter(|o| **o == Op::Send).count();
        if is_rx && gated {
            rx_ops_at = a;
            drain = true;
        } else if is_rx {
            // mix a few non-blocking receives into the sending phase
            let mut mixed = vec![];
            for o in ops {
                if rng.chance(300) {
                    mixed.push(Op::TryRecv);
                }
                mixed.push(o);
            }
            ops = mixed;
            for _ in 0..1 + rng.below(max_ops) {
                let c = rng.below(100);
                ops.push(if c < 30 {
                    Op::TryRecv
                } else if c < 70 {
                    Op::Recv
                } else {
                    Op::RecvTimeout
                });
            }
            if rng.chance(750) {
                drain = true;
                ops.push(Op::Drain);
                ops.push(Op::TryRecv);
            }
            ops.push(Op::DropRx);
        }
        all_ops.push(ops);
    }
    if gated {
        // the receiver takes exactly what is sent (blocking), opens the gates, then drains to Disconnected
        let mut ops = vec![Op::Recv; total_sends];
        ops.extend([Op::GateOpen, Op::Drain, Op::TryRecv, Op::DropRx]);
        all_ops[rx_ops_at] = ops;
    }
    for (a, ops) in all_ops.into_iter().enumerate() {
        let is_rx = a == rxa;
        let h0 = txh[a];
        desc.push(ops.iter().map(|o| letter(*o)).collect::<String>());
        let mut txs: Vec<mpsc::Sender<Msg>> = (0..h0).map(|_| tx0.clone()).collect();
        let mut rx = if is_rx { rx_slot.take() } else { None };
        let (hist, rx_gone, created, gates) = (hist.clone(), rx_gone.clone(), created.clone(), gates.clone());
        names.push(format!("t{a}"));
        actors.push(Box::new(move || {
            let mut seq = 0usize;
            let recv_code = |r: Result<Msg, u64>| -> u64 {
                match r {
                    Ok(m) => m.0 as u64, // the message is dropped here, by its receiver
                    Err(c) => c,
                }
            };
            for op in ops {
                match op {
                    Op::Send => {
                        seq += 1;
                        let id = msg_id(a, seq);
                        created.lock().unwrap().push(id);
                        let gone = rx_gone.load(Ordering::SeqCst);
                        call("chan.send", id as u64, 0);
                        let r = txs[0].send(Msg(id));
                        match r {
                            Ok(()) => {
                                record(&hist, a, What::SendOk(id, gone));
                                ret("chan.send", 1);
                            }
                            Err(e) => {
                                record(&hist, a, What::SendErr(id, e.0 .0));
                                ret("chan.send", 0);
                            }
                        }
                    }
                    Op::Clone => {
                        call("chan.clone", 0, 0);
                        let t = txs[0].clone();
                        txs.push(t);
                        ret("chan.clone", 0);
                    }
                    Op::DropTx => {
                        call("chan.drop_tx", 0, 0);
                        drop(txs.pop());
                        ret("chan.drop_tx", 0);
                    }
                    Op::TryRecv => {
                        call("chan.try_recv", 0, 0);
                        let c = recv_code(rx.as_ref().unwrap().try_recv().map_err(|e| match e {
                            TryRecvError::Empty => R_EMPTY,
                            TryRecvError::Disconnected => R_DISC,
                        }));
                        record(&hist, a, What::Recv(0, c));
                        ret("chan.try_recv", c);
                    }
                    Op::Recv => {
                        call("chan.recv", 0, 0);
                        let c = recv_code(rx.as_ref().unwrap().recv().map_err(|_| R_DISC));
                        record(&hist, a, What::Recv(1, c));
                        ret("chan.recv", c);
                    }
                    Op::RecvTimeout => {
                        call("chan.recv_timeout", 0, 0);
                        let c = recv_code(rx.as_ref().unwrap().recv_timeout(Duration::from_nanos(1)).map_err(|e| match e {
                            RecvTimeoutError::Timeout => R_TMO,
                            RecvTimeoutError::Disconnected => R_DISC,
                        }));
                        record(&hist, a, What::Recv(2, c));
                        ret("chan.recv_timeout", c);
                    }
                    Op::Drain => loop {
                        call("chan.recv", 0, 0);
                        let c = recv_code(rx.as_ref().unwrap().recv().map_err(|_| R_DISC));
                        record(&hist, a, What::Recv(1, c));
                        ret("chan.recv", c);
                        if c == R_DISC {
                            break;
                        }
                    },
                    Op::GateWait => {
                        gates[a].park(None).ok();
                    }
                    Op::GateOpen => {
                        for g in gates.iter() {
                            g.unpark();
                        }
                    }
                    Op::DropRx => {
                        call("chan.drop_rx", 0, 0);
                        drop(rx.take());
                        rx_gone.store(true, Ordering::SeqCst);
                        record(&hist, a, What::RxDropped);
                        ret("chan.drop_rx", 0);
                    }
                }
            }
            assert!(txs.is_empty() && rx.is_none());
        }));
    }
    drop(tx0); // untraced: the model starts with the handle counts of the header
    let header = format!(
        "family=ch_mpsc actors={} tx={} rx={} ops={}",
        na,
        txh.iter().map(|h| h.to_string()).collect::<Vec<_>>().join("."),
        rxa,
        desc.join(",")
    );
    Built {
        header,
        names,
        actors,
        check: Box::new(move |r| {
            let c = created.lock().unwrap().clone();
            check_history(r, &hist, &c, drain)
        }),
        filter: vec!["sync/mpsc.rs"],
        timeout_permille: 120,
    }
}
