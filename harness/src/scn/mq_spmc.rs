//! C04: may_queue::spmc (work-stealing run queue) at L0, det mode: every atomic access of the queue is a
//! trace event and a schedule point.
//!
//! Actor `t0` owns queue 0 (the victim), actor `ti` (i >= 1) is a stealer and, in `local` mode, owns queue i.
//!   mode=raw   : `Arc<Queue>`; owner: push / pop, stealers: pop / bulk_pop / is_empty; the queue is dropped with
//!                values left in it
//!   mode=local : `spmc::local()` pairs as in src/scheduler.rs; owner: push_back / pop (= local_pop) / has_tasks,
//!                stealers: steal_into(own Local) / pop on their own queue / is_empty
//! The owner creates the queues' first blocks inside the run (so that they are named in the trace), pre-fills and
//! pre-drains queue 0 so that the contended phase starts around the 32-slot block boundary, opens the start
//! gates, runs its own op list and then *keeps pushing* (with yields in between) until every stealer has
//! finished: a taker that over-claimed waits for the owner, which C04 allows; the scenarios are built so that
//! the owner always fills claimed slots before it finishes.
//!
//! Scenario kinds: `normal` (above), `tiny` (no pre-fill: short traces), `aba`: the owner first plays a fixed
//! prologue against ONE stealer that is *stalled inside the queue code* just before its first compare-exchange on
//! `head` (the scenario wraps the harness hooks and parks that thread virtually there): the owner fills and
//! drains two whole blocks on its own thread, so that the freed first block's address is handed out again by the
//! allocator for the third block, and brings `head` to the same index with fewer values published than the stalled
//! stealer believes. When the stealer is released its stale compare-exchange succeeds (ABA) and it has
//! over-claimed: it waits until the owner (who meanwhile sees an empty queue) has pushed enough.
//!
//! Oracles (independent of the model): every pushed value is obtained exactly once (returned by an API call or
//! dropped by a queue's Drop), nothing that was never pushed is obtained (payload carries a magic word: an
//! uninitialised slot does not), the owner's own pops are in push order, every batch is a contiguous run of the
//! push order in order (bulk_pop directly; steal_into: what is re-queued, followed by the returned value).
use super::Built;
use crate::rt::{call, ret, Actor, Rng};
use may_queue::spmc::{self, Local, Queue, Steal};
use std::sync::atomic::{AtomicUsize, Ordering};
use std::sync::{Arc, Mutex};

const MAGIC: u64 = 0x5AFE_C0DE_D00D_F00D;
const NONE: u64 = u64::MAX;

pub struct Item {
    magic: u64,
    id: u64,
}

#[derive(Default)]
struct Ledger {
    pushed: Vec<bool>,
    returned: Vec<u32>,
    qdrops: Vec<u32>,
    bad_magic: u32,
    /// order in which queue destructors dropped values
    drop_order: Vec<u64>,
}

static LEDGER: Mutex<Option<Ledger>> = Mutex::new(None);
/// set as soon as an oracle sees a duplicate / unwritten value: the actors stop using the queues and leak them,
/// so that the finding is reported instead of the process dying of the memory corruption that follows
static POISON: std::sync::atomic::AtomicBool = std::sync::atomic::AtomicBool::new(false);
fn poisoned() -> bool {
    POISON.load(Ordering::SeqCst)
}

fn ledger<R>(f: impl FnOnce(&mut Ledger) -> R) -> R {
    let mut g = LEDGER.lock().unwrap_or_else(|e| e.into_inner());
    f(g.get_or_insert_with(Ledger::default))
}
fn bump(v: &mut Vec<u32>, id: u64) {
    let i = id as usize;
    if i < 1 << 20 {
        if v.len() <= i {
            v.resize(i + 1, 0);
        }
        v[i] += 1;
    }
}

impl Drop for Item {
    fn drop(&mut self) {
        // only a queue's Drop gets here: values handed to an actor are recorded and forgotten
        let (m, id) = (self.magic, self.id);
        ledger(|l| {
            if m != MAGIC {
                l.bad_magic += 1;
                POISON.store(true, Ordering::SeqCst);
            } else {
                bump(&mut l.qdrops, id);
                l.drop_order.push(id);
                if l.qdrops[id as usize] + l.returned.get(id as usize).copied().unwrap_or(0) > 1 {
                    POISON.store(true, Ordering::SeqCst);
                }
            }
        });
    }
}

fn mk(id: u64) -> Item {
    ledger(|l| {
        let i = id as usize;
        if l.pushed.len() <= i {
            l.pushed.resize(i + 1, false);
        }
        l.pushed[i] = true;
    });
    Item { magic: MAGIC, id }
}

/// an actor obtained `it`: record and forget it; returns the id for the trace
fn obtained(it: Item) -> u64 {
    let (m, id) = (it.magic, it.id);
    std::mem::forget(it);
    ledger(|l| {
        if m != MAGIC {
            l.bad_magic += 1;
            POISON.store(true, Ordering::SeqCst);
        } else {
            bump(&mut l.returned, id);
            if l.returned[id as usize] + l.qdrops.get(id as usize).copied().unwrap_or(0) > 1 {
                POISON.store(true, Ordering::SeqCst);
            }
        }
    });
    if m != MAGIC {
        0xBAD
    } else {
        id
    }
}

fn hooks() -> &'static may::verif::Hooks {
    may::verif::hooks().expect("hooks installed")
}
fn gate_wait(a: usize) {
    (hooks().park)(a, None);
}
fn gate_open(a: usize) {
    (hooks().unpark)(a);
}
fn new_gate() -> usize {
    Box::leak(Box::new(0u64)) as *const u64 as usize
}

// ---------------------------------------------------------------- eager address re-use (real ABA)
// the recycling allocator lives in `crate::valloc` (the one global allocator of the harness); this family switches it on
use crate::valloc::RECYCLE_ON;

// ---------------------------------------------------------------- stall injection (kind = aba)
// The installed hook table is wrapped: for the one thread that set `STALL_ME`, the first hooked compare-exchange
// of spmc.rs first opens `STALL_NOTIFY` and then parks (virtually) on `STALL_GATE`.
use may::verif::{Ev, Hooks};
static INNER: std::sync::atomic::AtomicPtr<Hooks> = std::sync::atomic::AtomicPtr::new(std::ptr::null_mut());
static STALL_GATE: AtomicUsize = AtomicUsize::new(0);
static STALL_NOTIFY: AtomicUsize = AtomicUsize::new(0);
thread_local! { static STALL_ME: std::cell::Cell<bool> = const { std::cell::Cell::new(false) }; }
fn inner() -> &'static Hooks {
    unsafe { &*INNER.load(Ordering::SeqCst) }
}
fn w_before(ev: &Ev) {
    if ev.op == "cas" && STALL_ME.get() && ev.site.file().ends_with("spmc.rs") {
        STALL_ME.set(false);
        (inner().unpark)(STALL_NOTIFY.load(Ordering::SeqCst));
        (inner().park)(STALL_GATE.load(Ordering::SeqCst), None);
    }
    (inner().before)(ev)
}
fn w_after(ev: &Ev, r: u64, f: u8) {
    (inner().after)(ev, r, f)
}
fn w_park(a: usize, d: Option<std::time::Duration>) -> Option<bool> {
    (inner().park)(a, d)
}
fn w_unpark(a: usize) -> bool {
    (inner().unpark)(a)
}
fn w_note(k: &'static str, w: &str) {
    (inner().note)(k, w)
}
fn w_now() -> Option<u64> {
    (inner().now)()
}
static WRAP: Hooks = Hooks { before: w_before, after: w_after, park: w_park, unpark: w_unpark, note: w_note, now: w_now };
fn install_wrap() {
    let cur = may::verif::hooks().expect("hooks installed") as *const Hooks;
    if cur != &WRAP as *const Hooks {
        INNER.store(cur as *mut Hooks, Ordering::SeqCst);
        may::verif::install(&WRAP);
    }
}

#[derive(Clone, Copy, Debug)]
enum Op {
    Push,
    OwnPop,  // raw: q0.pop() by the owner; local: Local::pop
    Pop,     // stealer: q0.pop()
    Bulk,    // stealer: q0.bulk_pop()
    Steal,   // stealer: s0.steal_into(&mut own)
    Empty,   // is_empty / has_tasks on queue 0
}

fn opc(o: &Op) -> char {
    match o {
        Op::Push => 'P',
        Op::OwnPop => 'o',
        Op::Pop => 'p',
        Op::Bulk => 'b',
        Op::Steal => 's',
        Op::Empty => 'e',
    }
}

enum Shared {
    Raw(Arc<Queue<Item>>),
    Local(Steal<Item>),
}

enum Own {
    Raw(Arc<Queue<Item>>),
    Loc(Steal<Item>, Local<Item>),
}
impl Own {
    fn push(&mut self, id: &mut u64) {
        let it = mk(*id);
        call("spmc.push", *id, 0);
        match self {
            Own::Raw(q) => q.push(it),
            Own::Loc(_, l) => l.push_back(it),
        }
        ret("spmc.push", 0);
        *id += 1;
    }
    fn pop(&mut self, seqs: &Mutex<Seqs>) -> Option<u64> {
        let r = match self {
            Own::Raw(q) => {
                call("spmc.pop", 0, 0);
                let r = q.pop().map(obtained);
                ret("spmc.pop", r.unwrap_or(NONE));
                r
            }
            Own::Loc(_, l) => {
                call("spmc.lpop", 0, 0);
                let r = l.pop().map(obtained);
                ret("spmc.lpop", r.unwrap_or(NONE));
                r
            }
        };
        if let Some(id) = r {
            seqs.lock().unwrap().own[0].push(id);
        }
        r
    }
}

#[derive(Default)]
struct Seqs {
    /// values each actor got from *its own* queue by its own pops, in order
    own: Vec<Vec<u64>>,
    /// batches returned by bulk_pop
    batches: Vec<Vec<u64>>,
    /// return values of steal_into per stealer, in order
    steal_rets: Vec<Vec<u64>>,
}

struct Fin(Arc<AtomicUsize>);
impl Drop for Fin {
    fn drop(&mut self) {
        self.0.fetch_add(1, Ordering::SeqCst);
    }
}

pub fn build(rng: &mut Rng, tier: u32) -> Built {
    *LEDGER.lock().unwrap_or_else(|e| e.into_inner()) = Some(Ledger::default());
    POISON.store(false, Ordering::SeqCst);
    install_wrap();
    RECYCLE_ON.store(true, Ordering::SeqCst);
    let local_mode = rng.chance(500);
    // kind of scenario
    let kroll = rng.below(100);
    let kind = if kroll < 8 { "tiny" } else if kroll < 20 { "aba" } else { "normal" };
    let ns = 1 + rng.below(if tier > 0 { 4 } else { 3 }) as usize; // stealers
    let n = ns + 1;
    const B: u64 = 32;
    // where the contended phase starts: tail at k*B + (B-2 .. B+1), a few values left in front of it
    let blocks_before = if tier > 0 { rng.below(3) } else { rng.below(2) };
    let (pre_push, pre_drain) = match kind {
        "tiny" => (rng.below(3), 0),
        "aba" => (0, 0),
        _ => {
            let pp = blocks_before * B + B - 2 + rng.below(4);
            let left = rng.below(6).min(pp);
            (pp, if rng.chance(150) { 0 } else { pp - left })
        }
    };
    // aba prologue: the victim (stealer 1) is stalled at head = (block0, aba_id) believing push_id = aba_pid
    let aba_id = 1 + rng.below(5);
    let aba_bulk = local_mode || rng.chance(600); // victim's first op: bulk_pop / steal_into, else pop
    let aba_pid = if aba_bulk { aba_id + 2 + rng.below(20) } else { aba_id + 1 + rng.below(3) };
    // values published in the re-used block when the victim is released: fewer than it believes
    let aba_m = if aba_bulk { aba_id + rng.below(aba_pid - aba_id) } else { aba_id };
    let n_owner_ops = match kind {
        "tiny" => 1 + rng.below(4) as usize,
        _ => 3 + rng.below(if tier > 0 { 12 } else { 6 }) as usize,
    };
    let owner_ops: Vec<Op> = (0..n_owner_ops)
        .map(|_| match rng.below(10) {
            0..=5 => Op::Push,
            6..=8 => Op::OwnPop,
            _ => Op::Empty,
        })
        .collect();
    let mut st_ops: Vec<Vec<Op>> = vec![];
    for i in 0..ns {
        let k = match kind {
            "tiny" => 1 + rng.below(2) as usize,
            _ => 1 + rng.below(if tier > 0 { 6 } else { 4 }) as usize,
        };
        let mut v: Vec<Op> = (0..k)
            .map(|_| {
                if local_mode {
                    match rng.below(10) {
                        0..=5 => Op::Steal,
                        6..=8 => Op::OwnPop,
                        _ => Op::Empty,
                    }
                } else {
                    match rng.below(10) {
                        0..=4 => Op::Pop,
                        5..=8 => Op::Bulk,
                        _ => Op::Empty,
                    }
                }
            })
            .collect();
        if kind == "aba" && i == 0 {
            v[0] = if local_mode { Op::Steal } else if aba_bulk { Op::Bulk } else { Op::Pop };
        }
        st_ops.push(v);
    }
    let leave_in_queue = !local_mode && rng.chance(600);
    let fill_period = 2 + rng.below(3);

    let shared: Arc<Mutex<Vec<Option<Shared>>>> = Arc::new(Mutex::new((0..ns).map(|_| None).collect()));
    let seqs = Arc::new(Mutex::new(Seqs {
        own: vec![vec![]; n],
        batches: vec![],
        steal_rets: vec![vec![]; n],
    }));
    let finished = Arc::new(AtomicUsize::new(0));
    let start_gates: Vec<usize> = (0..ns).map(|_| new_gate()).collect();
    let dummy = new_gate();
    let is_aba = kind == "aba";
    let (stall_gate, stall_notify) = (new_gate(), new_gate());
    STALL_GATE.store(stall_gate, Ordering::SeqCst);
    STALL_NOTIFY.store(stall_notify, Ordering::SeqCst);

    let mut actors: Vec<Actor> = vec![];
    let mut names = vec![];

    // ---------------------------------------------------------------- owner
    {
        let (shared, seqs, finished, gates, ops) =
            (shared.clone(), seqs.clone(), finished.clone(), start_gates.clone(), owner_ops.clone());
        names.push("t0".to_string());
        actors.push(Box::new(move || {
            let mut own = if local_mode {
                let (s0, l0) = spmc::local();
                Own::Loc(s0, l0)
            } else {
                Own::Raw(Arc::new(Queue::new()))
            };
            let mut next_id = 0u64;
            for _ in 0..pre_push {
                own.push(&mut next_id);
            }
            for _ in 0..pre_drain {
                own.pop(&seqs);
            }
            {
                let mut sh = shared.lock().unwrap();
                for s in sh.iter_mut() {
                    *s = Some(match &own {
                        Own::Raw(q) => Shared::Raw(q.clone()),
                        Own::Loc(s0, _) => Shared::Local(s0.clone()),
                    });
                }
            }
            if is_aba {
                // head = (block0, aba_id), tail.index = aba_pid; then let the victim load this view and stall
                for _ in 0..aba_pid {
                    own.push(&mut next_id);
                }
                for _ in 0..aba_id {
                    own.pop(&seqs);
                }
                gate_open(gates[0]);
                gate_wait(stall_notify);
                // fill and drain block0 and block1 on this thread: block0 is freed here and (allocator permitting)
                // handed out again for block2
                for _ in 0..(B - aba_pid) {
                    own.push(&mut next_id);
                }
                for _ in 0..(B - aba_id) {
                    own.pop(&seqs);
                }
                for _ in 0..B {
                    own.push(&mut next_id);
                }
                for _ in 0..B {
                    own.pop(&seqs);
                }
                // head = (block2, aba_id) with only aba_m values published
                for _ in 0..aba_m {
                    own.push(&mut next_id);
                }
                for _ in 0..aba_id {
                    own.pop(&seqs);
                }
                gate_open(stall_gate);
                for g in &gates[1..] {
                    gate_open(*g);
                }
            } else {
                for g in &gates {
                    gate_open(*g);
                }
            }
            for op in ops {
                if poisoned() {
                    break;
                }
                match op {
                    Op::Push => own.push(&mut next_id),
                    Op::OwnPop => {
                        own.pop(&seqs);
                    }
                    _ => {
                        call("spmc.is_empty", 0, 0);
                        let e = match &own {
                            Own::Raw(q) => q.is_empty(),
                            Own::Loc(_, l) => !l.has_tasks(),
                        };
                        ret("spmc.is_empty", e as u64);
                    }
                }
            }
            // keep the queue fed until every stealer is done (an over-claimer waits for the owner)
            let mut it = 0u64;
            while finished.load(Ordering::SeqCst) < gates.len() && it < 3000 && !poisoned() {
                if it % fill_period == 0 {
                    own.push(&mut next_id);
                } else {
                    gate_open(dummy); // a pure schedule point
                }
                it += 1;
            }
            // epilogue: the owner holds the last handles
            if !leave_in_queue {
                while !poisoned() && own.pop(&seqs).is_some() {}
            }
            if poisoned() {
                std::mem::forget(own);
                return;
            }
            match own {
                Own::Loc(s0, l0) => {
                    call("spmc.lpop", 0, 0);
                    drop(l0); // Local::drop asserts that pop() is None
                    ret("spmc.lpop", NONE);
                    call("spmc.drop", 0, 0);
                    drop(s0);
                    ret("spmc.drop", 0);
                }
                Own::Raw(q) => {
                    call("spmc.drop", 0, 0);
                    drop(q);
                    ret("spmc.drop", 0);
                }
            }
        }));
    }

    // ---------------------------------------------------------------- stealers
    for i in 1..n {
        let (shared, seqs, finished, gate, ops) =
            (shared.clone(), seqs.clone(), finished.clone(), start_gates[i - 1], st_ops[i - 1].clone());
        names.push(format!("t{i}"));
        actors.push(Box::new(move || {
            let _fin = Fin(finished);
            gate_wait(gate);
            if is_aba && i == 1 {
                STALL_ME.set(true);
            }
            let h = shared.lock().unwrap()[i - 1].take().expect("queue published");
            match h {
                Shared::Raw(q) => {
                    for op in ops {
                        if poisoned() {
                            break;
                        }
                        match op {
                            Op::Pop => {
                                call("spmc.pop", 0, 0);
                                let r = q.pop().map(obtained);
                                ret("spmc.pop", r.unwrap_or(NONE));
                            }
                            Op::Bulk => {
                                call("spmc.bulk_pop", 0, 0);
                                let v = q.bulk_pop();
                                let ids: Vec<u64> = v.into_iter().map(obtained).collect();
                                for id in &ids {
                                    ret("spmc.bulk.item", *id);
                                }
                                ret("spmc.bulk_pop", ids.len() as u64);
                                seqs.lock().unwrap().batches.push(ids);
                            }
                            _ => {
                                call("spmc.is_empty", 0, 0);
                                let e = q.is_empty();
                                ret("spmc.is_empty", e as u64);
                            }
                        }
                    }
                    drop(q);
                }
                Shared::Local(s0) => {
                    let (si, mut li) = spmc::local::<Item>();
                    let lpop = |li: &mut Local<Item>| -> Option<u64> {
                        call("spmc.lpop", 0, i as u64);
                        let r = li.pop().map(obtained);
                        ret("spmc.lpop", r.unwrap_or(NONE));
                        if let Some(id) = r {
                            seqs.lock().unwrap().own[i].push(id);
                        }
                        r
                    };
                    for op in ops {
                        if poisoned() {
                            break;
                        }
                        match op {
                            Op::Steal => {
                                call("spmc.steal_into", 0, i as u64);
                                let r = s0.steal_into(&mut li).map(obtained);
                                ret("spmc.steal_into", r.unwrap_or(NONE));
                                if let Some(id) = r {
                                    seqs.lock().unwrap().steal_rets[i].push(id);
                                }
                            }
                            Op::OwnPop => {
                                lpop(&mut li);
                            }
                            _ => {
                                call("spmc.is_empty", 0, 0);
                                let e = s0.is_empty();
                                ret("spmc.is_empty", e as u64);
                            }
                        }
                    }
                    drop(s0);
                    while !poisoned() && lpop(&mut li).is_some() {}
                    if poisoned() {
                        std::mem::forget(li);
                        std::mem::forget(si);
                        return;
                    }
                    call("spmc.lpop", 0, i as u64);
                    drop(li);
                    ret("spmc.lpop", NONE);
                    call("spmc.drop", 0, i as u64);
                    drop(si);
                    ret("spmc.drop", 0);
                }
            }
        }));
    }

    let desc: Vec<String> = std::iter::once(&owner_ops)
        .chain(st_ops.iter())
        .map(|v| v.iter().map(opc).collect::<String>())
        .collect();
    let header = format!(
        "family=mq_spmc actors={} kind={} mode={} pre={}/{} leave={} ops={}",
        n,
        if is_aba { format!("aba:{aba_id}/{aba_pid}/{aba_m}") } else { kind.to_string() },
        if local_mode { "local" } else { "raw" },
        pre_push,
        pre_drain,
        leave_in_queue as u8,
        desc.join(",")
    );
    Built {
        header,
        names,
        actors,
        check: Box::new(move |r| {
            let mut v = vec![];
            // (after a finding the actors leak the queues on purpose: no loss accounting then)
            let complete = r.deadlock.is_none() && !r.budget_exceeded && r.panics.is_empty() && !poisoned();
            let l = LEDGER.lock().unwrap_or_else(|e| e.into_inner()).take().unwrap_or_default();
            let s = seqs.lock().unwrap();
            if l.bad_magic > 0 {
                v.push(format!("{} value(s) obtained from a slot that was never written (bad magic)", l.bad_magic));
            }
            let maxid = l.pushed.len().max(l.returned.len()).max(l.qdrops.len());
            for id in 0..maxid {
                let p = *l.pushed.get(id).unwrap_or(&false);
                let got = *l.returned.get(id).unwrap_or(&0) + *l.qdrops.get(id).unwrap_or(&0);
                if !p && got > 0 {
                    v.push(format!("value {id} obtained but never pushed"));
                }
                if p && got > 1 {
                    v.push(format!(
                        "value {id} obtained {got} times (returned {}, dropped by a queue {})",
                        l.returned.get(id).unwrap_or(&0),
                        l.qdrops.get(id).unwrap_or(&0)
                    ));
                }
                if p && got == 0 && complete {
                    v.push(format!("value {id} lost: pushed, never obtained, not dropped with its queue"));
                }
            }
            for (t, seq) in s.own.iter().enumerate() {
                if seq.windows(2).any(|w| w[0] >= w[1]) {
                    v.push(format!("t{t}: values popped from its own queue are not in push order: {seq:?}"));
                }
            }
            for b in &s.batches {
                if b.windows(2).any(|w| w[0] + 1 != w[1]) {
                    v.push(format!("bulk_pop batch is not a contiguous run of the push order: {b:?}"));
                }
            }
            // steal_into: what stealer i re-queued (= what it later popped from / dropped with its own queue) must be,
            // per call, the contiguous run that ends just before the returned value
            if complete {
                for i in 1..s.own.len() {
                    let rets = &s.steal_rets[i];
                    if rets.windows(2).any(|w| w[0] >= w[1]) {
                        v.push(format!("t{i}: steal_into return values not increasing: {rets:?}"));
                    }
                    let moved: Vec<u64> = s.own[i].clone();
                    let set: std::collections::BTreeSet<u64> = moved.iter().copied().collect();
                    for &x in &moved {
                        match rets.iter().find(|&&r| r > x) {
                            None => v.push(format!("t{i}: re-queued value {x} belongs to no steal_into batch (returns {rets:?})")),
                            Some(&r) => {
                                if (x + 1..r).any(|y| !set.contains(&y)) {
                                    v.push(format!(
                                        "t{i}: steal_into batch ending at {r} is not contiguous from {x} (re-queued {moved:?})"
                                    ));
                                }
                            }
                        }
                    }
                }
            }
            v.dedup();
            v.truncate(8);
            v
        }),
        filter: vec!["may_queue/src/spmc.rs"],
        timeout_permille: 0,
    }
}
