//! C13: a panic stays in its coroutine; lock poisoning follows std (real runtime).
//!
//! A scenario runs several *rounds* over the same stack pool. In each round `main` spawns 2–5 coroutines with
//! seeded roles and joins them all:
//!  * `panicker` – panics with a distinct payload before / after yields, possibly while it holds a
//!    `may::sync::Mutex` guard and / or an `RwLock` write guard (its own locks: no contention);
//!  * `holder`   – takes a guard, sleeps, and is *cancelled* by `main` meanwhile (or finishes first);
//!  * `worker`   – unrelated: yields / sleeps, takes and releases its own lock, returns a value;
//!  * `detached` – a panicker whose `JoinHandle` is dropped before it can run / as soon as it runs (nobody will ever ask
//!    for its payload); `main` learns of its end from a drop flag in its closure and then inspects its locks;
//!  * `victim`   – runs (yield / sleep) until `main` cancels it: its `join()` must yield exactly `Error::Cancel`;
//!  * `scoped`   – (some scenarios) owner of a scope with two children, one of which panics while the other still
//!    runs: the owner re-raises the payload after the scope has waited for both (same events as family `scope`).
//! After each round `main` inspects every lock that was used.
//!
//! Oracles (independent of the model)
//!  * the `JoinHandle` of a panicker yields `Err` with exactly its payload; a worker yields its value; a cancelled
//!    holder yields `Err` without payload (or its value when it was faster than the cancel);
//!  * `foreign-payload:` pool history (stack pool capacity 6, so the stacks of finished coroutines are reused within the
//!    scenario): an `Err` handed out by a `JoinHandle` is the coroutine's OWN payload, or exactly
//!    `generator::Error::Cancel` for a cancelled one - never the payload of a coroutine that used the stack before
//!    (e.g. of a detached panicker whose payload nobody took), never an unknown type;
//!  * a lock whose guard was dropped by a panic `is_poisoned()`, and `lock()/write()` return `Err(PoisonError)`
//!    whose `into_inner()` is a usable guard (the lock was released: a lock that was not would hang -> watchdog);
//!    a lock whose guard was dropped normally or by a cancellation unwind is not poisoned and can be taken;
//!  * stack reuse: the stack address of every coroutine is recorded; how many coroutines ran on a stack that a
//!    panicked coroutine had used before is reported in the header of the *next* check as coverage only – their
//!    results are checked like all others;
//!  * afterwards `2 x workers + 2` fresh coroutines are spawned and joined: every worker thread still runs
//!    coroutines (a dead worker would leave its share of them un-run -> watchdog);
//!  * `F10:` code that is not unwinding never observes `std::thread::panicking()`, and a lock whose holders
//!    never panicked is never poisoned (finding F10, see pending_fixes/README-C14.md: a coroutine that parks while it
//!    unwinds leaves the per-thread panic counter raised; repaired for the scope exits by F10.patch).
//!
//! Family `panicrw` (`build_rw`, oracles only, NOT part of `./check C13`): what F10.patch does not repair - a destructor
//! that blocks while it unwinds (`RwLockReadGuard::drop` -> `read_unlock` -> `rlock.lock()` under reader contention).
//! Its failures carry the prefix `F10rw:`.
//!
//! Family `panichand` (`build_hand`, replayed by `PanicR.handMachine`, part of `./check C13`): contended locks. One
//! coroutine takes a `Mutex` / an `RwLock` write guard, half-updates the data and panics inside the guard (1 in 4: ends
//! normally, control) while 1-3 waiters - coroutines and threads calling `lock()` / `write()` / `read()`, threads polling
//! `try_lock()` / `try_write()` / `try_read()` - are queued or arrive. The hooked operations of sync/poison.rs,
//! sync/mutex.rs and sync/rwlock.rs are perturbation points, so the dropper can be stalled between the two halves of the
//! guard's drop. Oracles: `handover:` every acquisition granted after the panicking holder's release reports `Poisoned`
//! (and the data it finds is the half-updated one); `poison:` nobody sees `Poisoned` in the control runs;
//! `is_poisoned()` is true as soon as the holder's `join()` has returned; the lock can still be taken at the end; a lost
//! wake-up is a hang (watchdog). The replay ties the order `poison.done` -> release of the lock word to the model.
//!
//! Family `scopecatch` (`build_catch`, replayed by `Scope.catchMachine`, part of `./check C13`): owners that catch the
//! re-raised panic of a scoped child, go on and are cancelled; oracles `reraise:` / `uncancellable:` (see `build_catch`).
//!
//! Family `paniccq` (`build_cq`, oracles only): the same probe around `cqueue::scope` - the owner panics in `f`, or an
//! arm panics and `poll` re-throws it, while another arm still runs, so `Cqueue::drop` has to wait.
//!
//! Trace = API events + hooked operations of join.rs, coroutine_impl.rs (result / panic slots), scoped.rs,
//! sync/poison.rs (`failed.load` in `Flag::borrow` / `get`, `failed.store(1)` in `Flag::done`) and cancel.rs (the cancel
//! word: `fetch_or(1)` of the canceller, `fetch_add(2)` / `fetch_sub(2)` of the scoped join's bracket; loads skipped).
use super::live_scope::{self, End, Node, Payload, ScopeSpec, Step};
use super::LiveBuilt;
use crate::rt::{call, ret, Rng};
use may::coroutine;
use may::sync::{Mutex, RwLock};
use std::sync::atomic::{AtomicBool, AtomicUsize, Ordering};
use std::sync::{Arc, Mutex as StdMutex};
use std::time::Duration;

#[derive(Clone, Debug)]
enum Role {
    /// (payload, lock it holds when it panics: 0 none / 1 mutex / 2 rwlock-write / 3 both, yields before the panic)
    Panicker(u64, u8, u32),
    /// (lock kind 1/2, sleep while holding in µs, cancel delay in µs)
    Holder(u8, u64, u64),
    /// steps
    Worker(Vec<Step>, bool),
    /// owner of a scope with two children; child `b` panics at once, child `a` is slow
    Scoped,
    /// fire-and-forget: (payload, locks held when it panics as for `Panicker`, yields before the panic, the handle is dropped
    /// before the coroutine can run / only once it runs)
    Detached(u64, u8, u32, bool),
    /// no locks: runs (yield / sleep) until `main` cancels it; its join must report exactly `Error::Cancel`
    Victim(u64),
}

struct Co {
    id: usize,
    role: Role,
}

struct Locks {
    m: Vec<Mutex<u64>>,
    rw: Vec<RwLock<u64>>,
}

fn lock_id(kind: u8, co: usize) -> u64 {
    // model lock ids: mutex of coroutine `co` = 2*co, rwlock = 2*co+1
    2 * co as u64 + (kind == 2) as u64
}

fn steps(v: &[Step]) {
    for s in v {
        match s {
            Step::Yield => coroutine::yield_now(),
            Step::Sleep(us) => coroutine::sleep(Duration::from_micros(*us)),
            Step::Spin(n) => {
                for _ in 0..*n {
                    std::hint::spin_loop();
                }
            }
        }
    }
}

fn f10_probe(fails: &StdMutex<Vec<String>>, who: usize, at: &str) {
    if std::thread::panicking() {
        let mut f = fails.lock().unwrap_or_else(|e| e.into_inner());
        if f.len() < 8 {
            f.push(format!("F10: c{who} is not unwinding but observes thread::panicking() == true ({at})"));
        }
    }
}

/// `with_scope`: family `panicscope` - every scenario has a `scoped` role: an owner that re-raises a child's panic and
/// then has to wait for a slow child. Before F10.patch that wait ran inside the unwind (a coroutine parked while
/// unwinding: finding F10, every manifestation is reported with the prefix `F10:`); since the patch `scope` catches the
/// panic first. Both families are strict and replayed; family `panic` has no `scoped` role.
pub fn build(rng: &mut Rng, tier: u32, with_scope: bool) -> LiveBuilt {
    // actor ids: 0 = main, 1 unused, 2.. coroutines (fresh id per spawn, over all rounds)
    let rounds = 2 + rng.below(if tier > 0 { 8 } else { 4 }) as usize;
    let mut next = 2usize;
    let mut plan: Vec<Vec<Co>> = vec![];
    let mut scoped_nodes: Vec<(usize, Arc<Node>)> = vec![];
    for r in 0..rounds {
        let k = 2 + rng.below(4) as usize;
        let mut round = vec![];
        for j in 0..k {
            let id = next;
            next += 1;
            let role = if with_scope && j == 0 && r % 2 == 0 {
                // ids of the two children follow the owner's
                let a = next;
                let b = next + 1;
                next += 2;
                let node = Node {
                    id,
                    pre: vec![],
                    scope: Some(ScopeSpec {
                        // dtors run in reverse order: `b` (panics at once) is joined first, the owner then waits
                        // for the slow `a` while it is already unwinding
                        kids: vec![
                            Node {
                                id: a,
                                pre: vec![Step::Sleep(300 + rng.below(700)), Step::Yield, Step::Sleep(100 + rng.below(300))],
                                scope: None,
                                post: vec![],
                                end: End::Return,
                            },
                            Node { id: b, pre: vec![Step::Yield], scope: None, post: vec![], end: End::Panic(7000 + b as u64) },
                        ],
                        join_macro: false,
                        explicit: vec![],
                        in_f: vec![],
                        f_panic: None,
                    }),
                    post: vec![],
                    end: End::Return,
                };
                scoped_nodes.push((id, Arc::new(node)));
                Role::Scoped
            } else {
                match rng.below(14) {
                    0..=3 => Role::Panicker(5000 + id as u64, rng.below(4) as u8, rng.below(3) as u32),
                    4 => Role::Holder(1 + rng.below(2) as u8, 300 + rng.below(900), rng.below(400)),
                    // pool history: detached panickers leave their stacks to the coroutines of the next rounds
                    10 | 11 => Role::Detached(6000 + id as u64, rng.below(4) as u8, rng.below(3) as u32, rng.below(2) == 0),
                    12 | 13 => Role::Victim(rng.below(300)),
                    _ => Role::Worker(
                        (0..1 + rng.below(4))
                            .map(|_| match rng.below(3) {
                                0 => Step::Yield,
                                1 => Step::Sleep(50 + rng.below(400)),
                                _ => Step::Spin(rng.below(3000) as u32),
                            })
                            .collect(),
                        rng.below(2) == 0,
                    ),
                }
            };
            round.push(Co { id, role });
        }
        plan.push(round);
    }
    // coroutines spawned after all rounds: every worker thread must still run its share
    let extra0 = next;
    let nextra = 8;
    let nact = next + nextra;
    let header = format!("family={} actors={nact} rounds={rounds}", if with_scope { "panicscope" } else { "panic" });
    LiveBuilt {
        header,
        filter: vec!["src/join.rs", "src/coroutine_impl.rs", "src/scoped.rs", "src/sync/poison.rs", "src/cancel.rs"],
        hang_ms: 4000,
        run: Box::new(move || {
            std::panic::set_hook(Box::new(|info| {
                let cancel = info.location().map(|l| l.file().ends_with("cancel.rs")).unwrap_or(false);
                if info.payload().downcast_ref::<Payload>().is_none() && !cancel {
                    eprintln!("unexpected panic: {info}");
                }
            }));
            may::config().set_stack_size(0x8000);
            // a small FIFO stack pool (set before the first spawn of the process creates it; `put` reads the capacity
            // every time): the stack of a finished coroutine is handed to one of the next few spawns
            may::config().set_pool_capacity(6);
            let fails: Arc<StdMutex<Vec<String>>> = Arc::new(StdMutex::new(vec![]));
            let locks = Arc::new(Locks {
                m: (0..nact).map(|_| Mutex::new(0)).collect(),
                rw: (0..nact).map(|_| RwLock::new(0)).collect(),
            });
            let panicked_stacks: Arc<StdMutex<Vec<usize>>> = Arc::new(StdMutex::new(vec![]));
            let reused = Arc::new(AtomicUsize::new(0));
            let sctx = Arc::new(live_scope::Ctx::new(None));
            let fail = |s: String| {
                let mut f = fails.lock().unwrap_or_else(|e| e.into_inner());
                if f.len() < 12 {
                    f.push(s);
                }
            };
            for round in &plan {
                let mut hs = vec![];
                let mut detached = vec![];
                for co in round {
                    let id = co.id;
                    let role = co.role.clone();
                    let (locks, fails2, ps, reused2) = (locks.clone(), fails.clone(), panicked_stacks.clone(), reused.clone());
                    let holding = Arc::new(AtomicBool::new(false));
                    let holding2 = holding.clone();
                    // `gone`: the closure is over (set by a guard that is declared first, i.e. dropped last, also by an unwind)
                    let gone = Arc::new(AtomicBool::new(false));
                    let gone2 = gone.clone();
                    let node = scoped_nodes.iter().find(|(i, _)| *i == id).map(|(_, n)| n.clone());
                    let sctx2 = sctx.clone();
                    call("spawn", id as u64, 0);
                    if matches!(role, Role::Scoped) {
                        sctx.spawned.fetch_add(1, Ordering::SeqCst);
                    }
                    let h = unsafe {
                        coroutine::Builder::new()
                            .name(format!("c{id}"))
                            .spawn(move || -> usize {
                                let _gone = SetOnDrop(gone2);
                                let marker = 0u8;
                                let stack = (&marker as *const u8 as usize) >> 12;
                                if ps.lock().unwrap_or_else(|e| e.into_inner()).contains(&stack) {
                                    reused2.fetch_add(1, Ordering::SeqCst);
                                }
                                match role {
                                    Role::Scoped => live_scope::run_node(&node.unwrap(), vec![], None, &sctx2, false),
                                    Role::Worker(st, use_lock) => {
                                        call("child.begin", id as u64, 0);
                                        f10_probe(&fails2, id, "begin");
                                        let half = st.len() / 2;
                                        steps(&st[..half]);
                                        if use_lock {
                                            call("lock", lock_id(1, id), 1);
                                            let g = locks.m[id].lock();
                                            ret("lock", g.is_err() as u64);
                                            let mut g = g.unwrap_or_else(|e| e.into_inner());
                                            *g += 1;
                                            steps(&st[half..]);
                                            f10_probe(&fails2, id, "before unlock");
                                            call("unlock", lock_id(1, id), 0);
                                            drop(g);
                                        } else {
                                            steps(&st[half..]);
                                        }
                                        f10_probe(&fails2, id, "end");
                                        call("child.end", id as u64, (id * 100 + 7) as u64);
                                        id * 100 + 7
                                    }
                                    Role::Holder(kind, sleep_us, _) => {
                                        call("child.begin", id as u64, 0);
                                        // guards are declared so that they are dropped by whatever ends the closure
                                        let _gm;
                                        let _gw;
                                        call("lock", lock_id(kind, id), kind as u64);
                                        if kind == 1 {
                                            let g = locks.m[id].lock();
                                            ret("lock", g.is_err() as u64);
                                            _gm = g.unwrap_or_else(|e| e.into_inner());
                                        } else {
                                            let g = locks.rw[id].write();
                                            ret("lock", g.is_err() as u64);
                                            _gw = g.unwrap_or_else(|e| e.into_inner());
                                        }
                                        holding2.store(true, Ordering::SeqCst);
                                        coroutine::sleep(Duration::from_micros(sleep_us));
                                        // not cancelled in time: a normal release
                                        call("unlock", lock_id(kind, id), 0);
                                        call("child.end", id as u64, (id * 100 + 7) as u64);
                                        id * 100 + 7
                                    }
                                    Role::Victim(_) => {
                                        call("child.begin", id as u64, 0);
                                        holding2.store(true, Ordering::SeqCst);
                                        // until the cancel arrives (a hang if it never does: watchdog)
                                        loop {
                                            coroutine::yield_now();
                                            coroutine::sleep(Duration::from_micros(150));
                                        }
                                    }
                                    Role::Panicker(p, lk, yields) | Role::Detached(p, lk, yields, _) => {
                                        call("child.begin", id as u64, 0);
                                        holding2.store(true, Ordering::SeqCst);
                                        ps.lock().unwrap_or_else(|e| e.into_inner()).push(stack);
                                        for _ in 0..yields {
                                            coroutine::yield_now();
                                        }
                                        let _gm;
                                        let _gw;
                                        if lk & 1 != 0 {
                                            call("lock", lock_id(1, id), 1);
                                            let g = locks.m[id].lock();
                                            ret("lock", g.is_err() as u64);
                                            _gm = g.unwrap_or_else(|e| e.into_inner());
                                        }
                                        if lk & 2 != 0 {
                                            call("lock", lock_id(2, id), 2);
                                            let g = locks.rw[id].write();
                                            ret("lock", g.is_err() as u64);
                                            _gw = g.unwrap_or_else(|e| e.into_inner());
                                        }
                                        if yields > 1 {
                                            coroutine::yield_now();
                                        }
                                        call("child.panic", id as u64, p);
                                        std::panic::panic_any(Payload(p))
                                    }
                                }
                            })
                            .unwrap()
                    };
                    if let Role::Detached(_, _, _, early) = co.role {
                        // fire-and-forget: the JoinHandle goes away before the coroutine ran, or while it runs
                        if !early {
                            while !holding.load(Ordering::SeqCst) && !gone.load(Ordering::SeqCst) {
                                std::thread::sleep(Duration::from_micros(20));
                            }
                        }
                        drop(h);
                        detached.push((co, gone));
                    } else {
                        hs.push((co, h, holding));
                    }
                }
                // cancel the holders once they hold their guard
                for (co, h, holding) in &hs {
                    // (no `is_done()` polling here: it is a hooked load without an API event of its own)
                    if let Role::Holder(_, _, delay) | Role::Victim(delay) = co.role {
                        // (no real-time bound: a coroutine that never gets there is the watchdog's business)
                        while !holding.load(Ordering::SeqCst) {
                            std::thread::sleep(Duration::from_micros(20));
                        }
                        std::thread::sleep(Duration::from_micros(delay));
                        call("cancel", co.id as u64, 0);
                        unsafe { h.coroutine().cancel() };
                        ret("cancel", 0);
                    }
                }
                let mut outcomes = vec![];
                for (co, h, _) in hs {
                    call("join", co.id as u64, 0);
                    let r = h.join();
                    // Err(Some(p)) = a payload of this scenario, Err(None) = exactly `Error::Cancel`
                    let r: Result<usize, Option<u64>> = r.map_err(|e| match e.downcast_ref::<Payload>() {
                        Some(p) => Some(p.0),
                        None => {
                            if e.downcast_ref::<generator::Error>() != Some(&generator::Error::Cancel) {
                                fail(format!("foreign-payload: join of c{} gave a payload that is neither of this scenario nor Error::Cancel", co.id));
                            }
                            None
                        }
                    });
                    ret("join", match &r { Ok(_) => 0, Err(Some(_)) => 1, Err(None) => 2 });
                    outcomes.push((co, Some(r)));
                }
                // the detached ones: wait until their closures are over (no handle to join)
                for (co, gone) in detached {
                    while !gone.load(Ordering::SeqCst) {
                        std::thread::sleep(Duration::from_micros(50));
                    }
                    outcomes.push((co, None));
                }
                // wait for the kernel tails of this round before looking at the locks
                super::quiesce(4);
                for (co, r) in outcomes {
                    let id = co.id;
                    let mut expect_poison = [false, false]; // mutex, rwlock of this coroutine
                    let mut used = [false, false];
                    if let (Role::Detached(_, lk, _, _), None) = (&co.role, &r) {
                        expect_poison = [lk & 1 != 0, lk & 2 != 0];
                        used = expect_poison;
                    }
                    let r = r.unwrap_or(Ok(0));
                    match &co.role {
                        Role::Detached(..) => {}
                        Role::Victim(_) => match r {
                            Err(None) => {}
                            Err(Some(p)) => fail(format!("foreign-payload: c{id} was cancelled and never panicked, but its JoinHandle delivered the panic payload {p} of another coroutine")),
                            Ok(v) => fail(format!("cancel: victim c{id} returned {v}")),
                        },
                        Role::Panicker(p, lk, _) => {
                            if r != Err(Some(*p)) {
                                fail(format!("payload: join of panicker c{id} gave {r:?}, expected Err(Some({p}))"));
                            }
                            expect_poison = [lk & 1 != 0, lk & 2 != 0];
                            used = expect_poison;
                        }
                        Role::Worker(_, use_lock) => {
                            if r != Ok(id * 100 + 7) {
                                fail(format!("isolation: unrelated coroutine c{id} gave {r:?}, expected Ok({})", id * 100 + 7));
                            }
                            used = [*use_lock, false];
                        }
                        Role::Holder(kind, _, _) => {
                            match r {
                                Ok(v) if v == id * 100 + 7 => {}
                                Err(None) => {}
                                Err(Some(p)) => fail(format!("foreign-payload: c{id} was cancelled and never panicked, but its JoinHandle delivered the panic payload {p} of another coroutine")),
                                other => fail(format!("cancel: holder c{id} gave {other:?}")),
                            }
                            used = [*kind == 1, *kind == 2];
                        }
                        Role::Scoped => {
                            let b = id + 2;
                            if r != Err(Some(7000 + b as u64)) {
                                fail(format!("panic: scope owner c{id} gave {r:?}, expected the payload of its child c{b}"));
                            }
                        }
                    }
                    for (i, kind) in [(0usize, 1u8), (1, 2)] {
                        if !used[i] {
                            continue;
                        }
                        let lid = lock_id(kind, id);
                        call("chk", lid, 0);
                        let p = if kind == 1 { locks.m[id].is_poisoned() } else { locks.rw[id].is_poisoned() };
                        ret("chk", p as u64);
                        if p != expect_poison[i] {
                            let what = format!("lock {lid} of c{id} is_poisoned() = {p}, expected {}", expect_poison[i]);
                            if p && !expect_poison[i] {
                                fail(format!("F10: {what} (its holders never panicked)"));
                            } else {
                                fail(format!("poison: {what}"));
                            }
                        }
                        // the lock must have been released whatever ended its holder
                        call("lock", lid, kind as u64);
                        let perr;
                        if kind == 1 {
                            let g = locks.m[id].lock();
                            perr = g.is_err();
                            ret("lock", perr as u64);
                            let mut g = g.unwrap_or_else(|e| e.into_inner());
                            *g += 1;
                            call("unlock", lid, 0);
                            drop(g);
                        } else {
                            let g = locks.rw[id].write();
                            perr = g.is_err();
                            ret("lock", perr as u64);
                            let mut g = g.unwrap_or_else(|e| e.into_inner());
                            *g += 1;
                            call("unlock", lid, 0);
                            drop(g);
                        }
                        if perr != p {
                            fail(format!("poison: lock {lid}: lock() reported poisoned={perr}, is_poisoned()={p}"));
                        }
                    }
                }
            }
            // every worker still runs coroutines
            let extra: Vec<_> = (extra0..extra0 + nextra)
                .map(|id| {
                    call("spawn", id as u64, 0);
                    let fails2 = fails.clone();
                    let h = unsafe {
                        coroutine::Builder::new()
                            .name(format!("c{id}"))
                            .spawn(move || {
                                call("child.begin", id as u64, 0);
                                coroutine::yield_now();
                                f10_probe(&fails2, id, "after the rounds");
                                call("child.end", id as u64, (id * 3) as u64);
                                id * 3
                            })
                            .unwrap()
                    };
                    (id, h)
                })
                .collect();
            for (id, h) in extra {
                call("join", id as u64, 0);
                let r = h.join();
                ret("join", if r.is_ok() { 0 } else { 1 });
                match r {
                    Ok(v) if v == id * 3 => {}
                    other => fail(format!("isolation: coroutine c{id} spawned after the panics gave {:?}", other.ok())),
                }
            }
            while sctx.ended.load(Ordering::SeqCst) < sctx.spawned.load(Ordering::SeqCst) {
                std::thread::sleep(Duration::from_micros(200));
            }
            super::quiesce(6);
            let mut out = std::mem::take(&mut *fails.lock().unwrap_or_else(|e| e.into_inner()));
            out.extend(sctx.take_fails());
            let _ = reused.load(Ordering::SeqCst);
            // strict in both families; only in a process in which an `F10:` observation was actually made are the
            // other failures reported as its possible consequences
            super::classify_f10(&mut out);
            out
        }),
    }
}

struct SetOnDrop(Arc<AtomicBool>);
impl Drop for SetOnDrop {
    fn drop(&mut self) {
        self.0.store(true, Ordering::SeqCst);
    }
}

/// family `paniccq` (oracles only; the cqueue events belong to C16's model): the owner of a `cqueue::scope` leaves it by
/// a panic while one of its select coroutines still runs, so `Cqueue::drop` must wait for it. Before F10.patch that wait
/// ran inside the unwind of the owner. Unrelated workers (with a `may::sync::Mutex` guard held across the window)
/// run alongside and probe `thread::panicking()`.
pub fn build_cq(rng: &mut Rng, tier: u32) -> LiveBuilt {
    let rounds = 1 + rng.below(if tier > 0 { 4 } else { 2 }) as usize;
    // per round: (who panics: 0 owner in f, 1 an arm (re-thrown by poll), slow arm sleep µs, workers)
    let plan: Vec<(u64, u64, usize)> = (0..rounds).map(|_| (rng.below(2), 300 + rng.below(900), 1 + rng.below(3) as usize)).collect();
    let header = format!("family=paniccq actors=2 rounds={rounds}");
    LiveBuilt {
        header,
        filter: vec!["src/join.rs", "src/coroutine_impl.rs", "src/sync/poison.rs"],
        hang_ms: 4000,
        run: Box::new(move || {
            std::panic::set_hook(Box::new(|info| {
                let cancel = info.location().map(|l| l.file().ends_with("cancel.rs")).unwrap_or(false);
                if info.payload().downcast_ref::<Payload>().is_none() && !cancel {
                    eprintln!("unexpected panic: {info}");
                }
            }));
            may::config().set_stack_size(0x8000);
            let fails: Arc<StdMutex<Vec<String>>> = Arc::new(StdMutex::new(vec![]));
            let fail = |s: String| {
                let mut f = fails.lock().unwrap_or_else(|e| e.into_inner());
                if f.len() < 12 {
                    f.push(s);
                }
            };
            for (r, (who, slow_us, nworkers)) in plan.iter().cloned().enumerate() {
                let p = 8000 + r as u64;
                let arm_done = Arc::new(AtomicBool::new(false));
                let arm_done2 = arm_done.clone();
                let owner = unsafe {
                    coroutine::Builder::new().name(format!("cq{r}")).spawn(move || {
                        may::cqueue::scope(|cq| {
                            // a slow arm: still inside its top half when the scope is left
                            // (`Cqueue::drop` cancels it and then has to wait until it is gone)
                            may::go!(cq, 0, move |es| {
                                let _gone = SetOnDrop(arm_done2);
                                coroutine::sleep(Duration::from_micros(slow_us));
                                coroutine::yield_now();
                                es.send(0);
                            });
                            if who == 1 {
                                // an arm that panics: `poll` re-throws its payload in the owner
                                may::go!(cq, 1, move |_es| {
                                    coroutine::yield_now();
                                    std::panic::panic_any(Payload(p));
                                });
                                loop {
                                    if cq.poll(None).is_err() {
                                        break;
                                    }
                                }
                            } else {
                                coroutine::yield_now();
                                std::panic::panic_any(Payload(p));
                            }
                        });
                    })
                    .unwrap()
                };
                let locks: Arc<Vec<Mutex<u64>>> = Arc::new((0..nworkers).map(|_| Mutex::new(0)).collect());
                let ws: Vec<_> = (0..nworkers)
                    .map(|i| {
                        let (fails2, locks2) = (fails.clone(), locks.clone());
                        let id = 100 * (r + 1) + i;
                        unsafe {
                            coroutine::Builder::new().name(format!("w{id}")).spawn(move || {
                                f10_probe(&fails2, id, "begin");
                                let mut g = locks2[i].lock().unwrap_or_else(|e| e.into_inner());
                                *g += 1;
                                for k in 0..6 {
                                    if k % 2 == 0 {
                                        coroutine::yield_now();
                                    } else {
                                        coroutine::sleep(Duration::from_micros(150));
                                    }
                                    f10_probe(&fails2, id, "holding its lock");
                                }
                                drop(g);
                                f10_probe(&fails2, id, "end");
                                id
                            })
                            .unwrap()
                        }
                    })
                    .collect();
                let res = owner.join().map_err(|e| e.downcast_ref::<Payload>().map(|p| p.0));
                if res != Err(Some(p)) {
                    fail(format!("panic: owner of the cqueue scope gave {res:?}, expected Err(Some({p}))"));
                }
                if !arm_done.load(Ordering::SeqCst) {
                    fail("scope: cqueue::scope was left while one of its select coroutines was still running".to_string());
                }
                for (i, w) in ws.into_iter().enumerate() {
                    let id = 100 * (r + 1) + i;
                    match w.join() {
                        Ok(v) if v == id => {}
                        other => fail(format!("isolation: unrelated coroutine w{id} gave {:?}", other.ok())),
                    }
                    if locks[i].is_poisoned() {
                        fail(format!("F10: the lock of w{id} is poisoned (its holder never panicked)"));
                    }
                }
            }
            super::quiesce(4);
            let mut out = std::mem::take(&mut *fails.lock().unwrap_or_else(|e| e.into_inner()));
            super::classify_f10(&mut out);
            out
        }),
    }
}

/// family `panicrw` (oracles only, not in tools/props.py): the residue of finding F10 after F10.patch. Readers hammer one
/// `RwLock`; some of them panic while they hold a read guard (the panic is caught inside the same coroutine). The guard is
/// dropped by the unwind, `read_unlock` takes the reader-count mutex `rlock`, and under contention that `lock()` parks:
/// a coroutine is suspended while it unwinds. Everything is reported with the prefix `F10rw:`.
pub fn build_rw(rng: &mut Rng, tier: u32) -> LiveBuilt {
    let readers = 6 + rng.below(if tier > 0 { 13 } else { 7 }) as usize;
    let iters = 40 + rng.below(60) as usize;
    let header = format!("family=panicrw actors=2 readers={readers} iters={iters}");
    LiveBuilt {
        header,
        filter: vec!["src/sync/rwlock.rs"],
        hang_ms: 6000,
        run: Box::new(move || {
            std::panic::set_hook(Box::new(|_| {}));
            may::config().set_stack_size(0x8000);
            let lock = Arc::new(RwLock::new(0u64));
            let seen = Arc::new(AtomicUsize::new(0));
            let hs: Vec<_> = (0..readers)
                .map(|i| {
                    let (lock, seen) = (lock.clone(), seen.clone());
                    unsafe {
                        coroutine::Builder::new().name(format!("r{i}")).spawn(move || {
                            for k in 0..iters {
                                if std::thread::panicking() {
                                    seen.fetch_add(1, Ordering::Relaxed);
                                }
                                let g = lock.read().unwrap_or_else(|e| e.into_inner());
                                if i % 3 == 0 && k % 10 == 9 {
                                    let r = std::panic::catch_unwind(std::panic::AssertUnwindSafe(|| {
                                        let _g2 = lock.read().unwrap_or_else(|e| e.into_inner());
                                        std::panic::panic_any(Payload(k as u64));
                                    }));
                                    assert!(r.is_err());
                                }
                                drop(g);
                                if k % 5 == 0 {
                                    coroutine::yield_now();
                                }
                            }
                        })
                        .unwrap()
                    }
                })
                .collect();
            let mut out = vec![];
            for h in hs {
                if h.join().is_err() {
                    out.push("F10rw: a reader ended with a panic of its own".to_string());
                }
            }
            let n = seen.load(Ordering::Relaxed);
            if n > 0 {
                out.push(format!("F10rw: readers that were not unwinding observed thread::panicking() == true {n} times (a read guard dropped by an unwind blocked in read_unlock)"));
            }
            out
        }),
    }
}

// ------------------------------------------------------------------------------------------------ family `panichand`

#[derive(Clone, Copy, Debug, PartialEq)]
enum Acq {
    /// `Mutex::lock` / `RwLock::write`
    Excl,
    /// `RwLock::read`
    Read,
    /// busy-polling `try_lock` / `try_write`
    TryExcl,
    /// busy-polling `try_read`
    TryRead,
}

/// outcome of one acquisition of a waiter: (was it reported Poisoned, the protected value it saw)
fn acquire(m: &Mutex<u64>, rw: &RwLock<u64>, is_rw: bool, how: Acq, lid: u64, fails: &StdMutex<Vec<String>>, who: &str, expect_poison: bool) {
    use std::sync::TryLockError;
    let kind = match how {
        Acq::Excl => 1,
        Acq::Read => 3,
        Acq::TryExcl => 4,
        Acq::TryRead => 5,
    };
    call("lock", lid, kind);
    // the value is odd while the holder is "in the middle of an update" - which it never finishes
    let (poisoned, seen) = if !is_rw {
        let r = match how {
            Acq::Excl | Acq::Read => m.lock(),
            _ => loop {
                match m.try_lock() {
                    Ok(g) => break Ok(g),
                    Err(TryLockError::Poisoned(e)) => break Err(e),
                    Err(TryLockError::WouldBlock) => std::thread::sleep(Duration::from_micros(5)),
                }
            },
        };
        let p = r.is_err();
        ret("lock", p as u64);
        let g = r.unwrap_or_else(|e| e.into_inner());
        let v = *g;
        if coroutine::is_coroutine() {
            coroutine::yield_now();
        }
        call("unlock", lid, 0);
        drop(g);
        (p, v)
    } else {
        match how {
            Acq::Excl | Acq::TryExcl => {
                let r = if how == Acq::Excl {
                    rw.write()
                } else {
                    loop {
                        match rw.try_write() {
                            Ok(g) => break Ok(g),
                            Err(TryLockError::Poisoned(e)) => break Err(e),
                            Err(TryLockError::WouldBlock) => std::thread::sleep(Duration::from_micros(5)),
                        }
                    }
                };
                let p = r.is_err();
                ret("lock", p as u64);
                let g = r.unwrap_or_else(|e| e.into_inner());
                let v = *g;
                if coroutine::is_coroutine() {
                    coroutine::yield_now();
                }
                call("unlock", lid, 0);
                drop(g);
                (p, v)
            }
            _ => {
                let r = if how == Acq::Read {
                    rw.read()
                } else {
                    loop {
                        match rw.try_read() {
                            Ok(g) => break Ok(g),
                            Err(TryLockError::Poisoned(e)) => break Err(e),
                            Err(TryLockError::WouldBlock) => std::thread::sleep(Duration::from_micros(5)),
                        }
                    }
                };
                let p = r.is_err();
                ret("lock", p as u64);
                let g = r.unwrap_or_else(|e| e.into_inner());
                let v = *g;
                if coroutine::is_coroutine() {
                    coroutine::yield_now();
                }
                call("unlock", lid, 0);
                drop(g);
                (p, v)
            }
        }
    };
    if poisoned != expect_poison {
        let mut f = fails.lock().unwrap_or_else(|e| e.into_inner());
        if f.len() < 12 {
            if expect_poison {
                f.push(format!(
                    "handover: {who} ({how:?}) was granted lock {lid} after the holder that panicked inside its guard had released it, but got Ok(guard) instead of Err(Poisoned) (protected value seen: {seen}, odd = half-updated)"
                ));
            } else {
                f.push(format!("poison: {who} ({how:?}) got Err(Poisoned) on lock {lid} although no holder panicked"));
            }
        }
    }
}

/// family `panichand` (C13, strict): **a lock released by a panic is handed over poisoned**. The first holder of a
/// `Mutex` / an `RwLock` (write guard) - a coroutine - takes the lock before anybody else exists, marks the protected
/// value "half-updated", waits until 1-3 waiters (coroutines and threads; `lock()`/`write()`, `read()`, busy-polling
/// `try_*`) have arrived (some are queued in the lock by then, some arrive later, pollers hit the release directly)
/// and panics. Every acquisition of every waiter is granted after the holder's release (the holder was first), so
/// **every one must report `Poisoned`**, for all schedules - no timing assumption; afterwards `is_poisoned()` and the
/// lock can still be taken. A quarter of the scenarios are controls: the holder releases normally, nobody may see
/// `Poisoned`. The hooked operations of sync/poison.rs, sync/mutex.rs, sync/rwlock.rs are in the filter, so the live
/// perturbation stalls the dropper at every step of its guard drop, also between its unlock and its poison store if
/// the code has them in that order.
pub fn build_hand(rng: &mut Rng, _tier: u32) -> LiveBuilt {
    let is_rw = rng.below(3) != 0;
    let panics = rng.below(4) != 0;
    let nw = 1 + rng.below(3) as usize;
    let waiters: Vec<(bool, Acq, u64)> = (0..nw)
        .map(|_| {
            let coro = rng.below(2) == 0;
            let how = match (is_rw, rng.below(4)) {
                (true, 0) => Acq::Excl,
                (true, 1) => Acq::Read,
                (true, 2) => Acq::TryExcl,
                (true, _) => Acq::TryRead,
                (false, 0) | (false, 1) => Acq::Excl,
                (false, _) => Acq::TryExcl,
            };
            // a poller in coroutine context would spin on its worker: pollers are threads
            let coro = coro && matches!(how, Acq::Excl | Acq::Read);
            (coro, how, rng.below(3) * rng.below(200))
        })
        .collect();
    let hold_yields = rng.below(4);
    let extra_delay = rng.below(4) * rng.below(150);
    // actors: 0 main, 1 unused, 2 the holder, 3.. the waiters (coroutines `c<i>`, threads `t<i>`)
    let header = format!(
        "family=panichand actors={} rw={} panics={} waiters={}",
        3 + nw,
        is_rw as u8,
        panics as u8,
        waiters.iter().map(|w| format!("{}{:?}", if w.0 { "c" } else { "t" }, w.1)).collect::<Vec<_>>().join(",")
    );
    LiveBuilt {
        header,
        filter: vec!["src/sync/poison.rs", "src/sync/mutex.rs", "src/sync/rwlock.rs"],
        hang_ms: 6000,
        run: Box::new(move || {
            std::panic::set_hook(Box::new(|info| {
                if info.payload().downcast_ref::<Payload>().is_none() {
                    eprintln!("unexpected panic: {info}");
                }
            }));
            may::config().set_stack_size(0x8000);
            let fails: Arc<StdMutex<Vec<String>>> = Arc::new(StdMutex::new(vec![]));
            let m = Arc::new(Mutex::new(0u64));
            let rw = Arc::new(RwLock::new(0u64));
            let lid = 7u64;
            let holding = Arc::new(AtomicBool::new(false));
            let go = Arc::new(AtomicBool::new(false));
            let arrived = Arc::new(AtomicUsize::new(0));
            let p = 4242u64;
            call("spawn", 2, 0);
            let (m2, rw2, holding2, go2) = (m.clone(), rw.clone(), holding.clone(), go.clone());
            let holder = unsafe {
                coroutine::Builder::new().name("c2".into()).spawn(move || {
                    call("child.begin", 2, 0);
                    call("lock", lid, if is_rw { 2 } else { 1 });
                    // declared so that the guard is dropped by whatever ends the closure
                    let mut gm = None;
                    let mut gw = None;
                    if is_rw {
                        let g = rw2.write();
                        ret("lock", g.is_err() as u64);
                        let mut g = g.unwrap_or_else(|e| e.into_inner());
                        *g += 1; // half-updated
                        gw = Some(g);
                    } else {
                        let g = m2.lock();
                        ret("lock", g.is_err() as u64);
                        let mut g = g.unwrap_or_else(|e| e.into_inner());
                        *g += 1;
                        gm = Some(g);
                    }
                    holding2.store(true, Ordering::SeqCst);
                    // (sleep, not yield_now: a coroutine that only yields goes back to its worker's local queue and is
                    //  taken again before the worker looks at the global queue - with one worker the waiters would never start)
                    while !go2.load(Ordering::SeqCst) {
                        coroutine::sleep(Duration::from_micros(100));
                    }
                    for _ in 0..hold_yields {
                        coroutine::yield_now();
                    }
                    if panics {
                        call("child.panic", 2, p);
                        std::panic::panic_any(Payload(p));
                    }
                    // control: the update is completed and the guard released normally
                    if let Some(g) = gw.as_mut() {
                        **g += 1;
                    }
                    if let Some(g) = gm.as_mut() {
                        **g += 1;
                    }
                    call("unlock", lid, 0);
                    drop(gw);
                    drop(gm);
                    call("child.end", 2, 0);
                })
                .unwrap()
            };
            // nobody else exists before the holder has the lock: every later grant follows its release
            while !holding.load(Ordering::SeqCst) {
                std::thread::sleep(Duration::from_micros(20));
            }
            let mut cs = vec![];
            let mut ts = vec![];
            for (i, (coro, how, delay)) in waiters.iter().cloned().enumerate() {
                let id = 3 + i;
                let (m3, rw3, fails3, arrived3) = (m.clone(), rw.clone(), fails.clone(), arrived.clone());
                let body = move |who: String| {
                    arrived3.fetch_add(1, Ordering::SeqCst);
                    if delay > 0 {
                        if coroutine::is_coroutine() {
                            coroutine::sleep(Duration::from_micros(delay));
                        } else {
                            std::thread::sleep(Duration::from_micros(delay));
                        }
                    }
                    acquire(&m3, &rw3, is_rw, how, lid, &fails3, &who, panics);
                };
                if coro {
                    call("spawn", id as u64, 0);
                    cs.push(unsafe {
                        coroutine::Builder::new().name(format!("c{id}")).spawn(move || {
                            call("child.begin", id as u64, 0);
                            body(format!("coroutine c{id}"));
                            call("child.end", id as u64, 0);
                        })
                        .unwrap()
                    });
                } else {
                    ts.push(super::spawn_actor_thread(&format!("t{id}"), move || body(format!("thread t{id}"))));
                }
            }
            while arrived.load(Ordering::SeqCst) < nw {
                std::thread::sleep(Duration::from_micros(20));
            }
            if extra_delay > 0 {
                std::thread::sleep(Duration::from_micros(extra_delay));
            }
            go.store(true, Ordering::SeqCst);
            let fail = |s: String| {
                let mut f = fails.lock().unwrap_or_else(|e| e.into_inner());
                if f.len() < 12 {
                    f.push(s);
                }
            };
            let r = holder.join().map_err(|e| e.downcast_ref::<Payload>().map(|p| p.0));
            match (panics, &r) {
                (true, Err(Some(q))) if *q == p => {}
                (false, Ok(())) => {}
                _ => fail(format!("payload: join of the holder gave {r:?} (panics={panics})")),
            }
            // `is_poisoned()` once the panicking holder's join has returned
            call("chk", lid, 0);
            let ip = if is_rw { rw.is_poisoned() } else { m.is_poisoned() };
            ret("chk", ip as u64);
            if ip != panics {
                fail(format!("poison: is_poisoned() = {ip} after the join of the holder (panics={panics})"));
            }
            for c in cs {
                if c.join().is_err() {
                    fail("isolation: a waiter coroutine ended with a panic".to_string());
                }
            }
            for t in ts {
                let _ = t.join();
            }
            // released: still acquirable (a lock that was not would hang: watchdog), and still reported poisoned
            acquire(&m, &rw, is_rw, Acq::Excl, lid, &fails, "main (final)", panics);
            super::quiesce(3);
            let mut out = std::mem::take(&mut *fails.lock().unwrap_or_else(|e| e.into_inner()));
            super::classify_f10(&mut out);
            out
        }),
    }
}

/// one owner of family `scopecatch`
#[derive(Clone, Debug)]
struct CatchOwner {
    id: usize,
    /// (id, yields before it ends, panic payload if it panics)
    kids: Vec<(usize, u32, Option<u64>)>,
    /// index of a child that is joined explicitly (`ScopedJoinHandle::join`) inside the scope closure
    explicit: Option<usize>,
    /// cancellation points: 0 yield_now, 1 sleep(60 µs), 2 both in turn
    beat_kind: u8,
    /// cancellation points the owner passes before `main` cancels it
    before_cancel: usize,
}

/// family `scopecatch` (C13, replayed by `Scope.catchMachine`): **the panic of a scoped coroutine is re-raised in the owner
/// of the scope and has no other effect on it.** 2-4 owner coroutines each wrap a `coroutine::scope` with 1-3 scoped
/// children in `catch_unwind` (a server loop guarding one request). In some owners a child panics (before / after yields;
/// joined by the scope-exit dtors or explicitly inside the closure), the others are controls. Every owner survives, reports
/// whether something was re-raised, parks until `main` lets it go and then runs a loop of cancellation points
/// (`yield_now`, `sleep`). `main` lets one owner at a time run a few of them and cancels it.
/// Oracles (no real-time bound): `reraise:` the scope re-raised iff a child panicked; `uncancellable:` once `cancel()` has
/// returned the owner ends after at most a few more cancellation points - an owner that passes `SLACK` more is stopped
/// by a flag and reported - and its `JoinHandle` yields exactly `Error::Cancel`; afterwards fresh coroutines run.
pub fn build_catch(rng: &mut Rng, _tier: u32) -> LiveBuilt {
    const SLACK: usize = 12;
    let no = 2 + rng.below(3) as usize;
    let mut next = 2 + no;
    let mut owners = vec![];
    for i in 0..no {
        let nk = 1 + rng.below(3) as usize;
        // the first owner always has a panicking child, the second never (control); the rest are seeded
        let panics = match i {
            0 => true,
            1 => false,
            _ => rng.below(2) == 0,
        };
        let bad = rng.below(nk as u64) as usize;
        let kids: Vec<(usize, u32, Option<u64>)> = (0..nk)
            .map(|k| {
                let id = next;
                next += 1;
                let p = if panics && (k == bad || rng.below(4) == 0) { Some(7000 + id as u64) } else { None };
                (id, rng.below(3) as u32, p)
            })
            .collect();
        let explicit = if rng.below(3) == 0 { Some(rng.below(nk as u64) as usize) } else { None };
        owners.push(CatchOwner { id: 2 + i, kids, explicit, beat_kind: rng.below(3) as u8, before_cancel: rng.below(5) as usize });
    }
    let order: Vec<usize> = {
        let mut v: Vec<usize> = (0..no).collect();
        for i in (1..no).rev() {
            v.swap(i, rng.below(i as u64 + 1) as usize);
        }
        v
    };
    let header = format!(
        "family=scopecatch actors={} owners={} panicking={}",
        next,
        no,
        owners.iter().filter(|o| o.kids.iter().any(|k| k.2.is_some())).map(|o| format!("c{}", o.id)).collect::<Vec<_>>().join(",")
    );
    LiveBuilt {
        header,
        filter: vec!["src/cancel.rs", "src/scoped.rs", "src/join.rs", "src/coroutine_impl.rs"],
        hang_ms: 6000,
        run: Box::new(move || {
            std::panic::set_hook(Box::new(|info| {
                let cancel = info.location().map(|l| l.file().ends_with("cancel.rs")).unwrap_or(false);
                if info.payload().downcast_ref::<Payload>().is_none() && !cancel {
                    eprintln!("unexpected panic: {info}");
                }
            }));
            may::config().set_stack_size(0x8000);
            let fails: Arc<StdMutex<Vec<String>>> = Arc::new(StdMutex::new(vec![]));
            struct Live {
                h: Option<coroutine::JoinHandle<u64>>,
                caught: Arc<AtomicUsize>, // 0 not yet, 1 nothing re-raised, 2 a payload was re-raised
                go: Arc<AtomicBool>,
                stop: Arc<AtomicBool>,
                beats: Arc<AtomicUsize>,
                gone: Arc<AtomicBool>,
            }
            let mut live = vec![];
            for o in owners.iter().cloned() {
                let l = Live {
                    h: None,
                    caught: Arc::new(AtomicUsize::new(0)),
                    go: Arc::new(AtomicBool::new(false)),
                    stop: Arc::new(AtomicBool::new(false)),
                    beats: Arc::new(AtomicUsize::new(0)),
                    gone: Arc::new(AtomicBool::new(false)),
                };
                let (caught, go, stop, beats, gone, fails2) = (l.caught.clone(), l.go.clone(), l.stop.clone(), l.beats.clone(), l.gone.clone(), fails.clone());
                call("spawn", o.id as u64, 0);
                let h = unsafe {
                    coroutine::Builder::new().name(format!("c{}", o.id)).spawn(move || {
                        let _gone = SetOnDrop(gone);
                        let me = o.id;
                        call("child.begin", me as u64, 0);
                        let kids = o.kids.clone();
                        let explicit = o.explicit;
                        let r = std::panic::catch_unwind(std::panic::AssertUnwindSafe(|| {
                            call("scope.enter", me as u64, 0);
                            coroutine::scope(|s| {
                                let mut hs = vec![];
                                for &(kid, yields, pay) in kids.iter() {
                                    call("scope.spawn", kid as u64, 0);
                                    let h = unsafe {
                                        s.spawn_with_builder(
                                            move || {
                                                call("child.begin", kid as u64, 0);
                                                for _ in 0..yields {
                                                    coroutine::yield_now();
                                                }
                                                if let Some(p) = pay {
                                                    call("child.panic", kid as u64, p);
                                                    std::panic::panic_any(Payload(p));
                                                }
                                                call("child.end", kid as u64, kid as u64);
                                                kid as u64
                                            },
                                            coroutine::Builder::new().name(format!("c{kid}")),
                                        )
                                    };
                                    hs.push(Some(h));
                                }
                                if let Some(i) = explicit {
                                    call("sjoin", kids[i].0 as u64, 0);
                                    let v = hs[i].take().unwrap().join();
                                    ret("sjoin", v);
                                }
                                call("scope.fend", 0, 0);
                            });
                        }));
                        let reraised = match &r {
                            Ok(()) => None,
                            Err(e) => Some(e.downcast_ref::<Payload>().map(|p| p.0)),
                        };
                        call("caught", me as u64, reraised.is_some() as u64);
                        let own: Vec<u64> = o.kids.iter().filter_map(|k| k.2).collect();
                        match reraised {
                            None if own.is_empty() => {}
                            Some(Some(p)) if own.contains(&p) => {}
                            other => {
                                let mut f = fails2.lock().unwrap_or_else(|e| e.into_inner());
                                f.push(format!("reraise: the scope of owner c{me} (payloads of its panicking children: {own:?}) re-raised {other:?}"));
                            }
                        }
                        drop(r);
                        caught.store(1 + reraised.is_some() as usize, Ordering::SeqCst);
                        // wait (blocked, no events) until main lets this owner go
                        while !go.load(Ordering::SeqCst) {
                            coroutine::park();
                        }
                        // the owner goes on: every iteration is a cancellation point
                        let mut n = 0usize;
                        while !stop.load(Ordering::SeqCst) {
                            match (o.beat_kind, n % 2) {
                                (0, _) | (2, 0) => coroutine::yield_now(),
                                _ => coroutine::sleep(Duration::from_micros(60)),
                            }
                            n += 1;
                            beats.store(n, Ordering::SeqCst);
                        }
                        call("child.end", me as u64, n as u64);
                        n as u64
                    })
                    .unwrap()
                };
                live.push(Live { h: Some(h), ..l });
            }
            let fail = |s: String| {
                let mut f = fails.lock().unwrap_or_else(|e| e.into_inner());
                if f.len() < 12 {
                    f.push(s);
                }
            };
            // phase 1: every owner has left its scope and caught what was re-raised (they are parked now: if one never
            // gets there no event is logged any more and the watchdog reports the hang)
            for l in live.iter() {
                while l.caught.load(Ordering::SeqCst) == 0 {
                    std::thread::sleep(Duration::from_micros(50));
                }
            }
            // phase 2: one owner at a time runs a few cancellation points and is cancelled
            for &i in order.iter() {
                let o = &owners[i];
                let l = &mut live[i];
                let h = l.h.take().unwrap();
                let panicking = o.kids.iter().any(|k| k.2.is_some());
                l.go.store(true, Ordering::SeqCst);
                h.coroutine().unpark();
                while l.beats.load(Ordering::SeqCst) < o.before_cancel {
                    std::thread::sleep(Duration::from_micros(20));
                }
                call("cancel", o.id as u64, 0);
                unsafe { h.coroutine().cancel() };
                ret("cancel", 0);
                let b0 = l.beats.load(Ordering::SeqCst);
                let mut stopped = false;
                while !l.gone.load(Ordering::SeqCst) {
                    let b = l.beats.load(Ordering::SeqCst);
                    if b >= b0 + SLACK {
                        fail(format!(
                            "uncancellable: owner c{} ({}) passed {} cancellation points after cancel() had returned ({} before) and is still running: the cancel is not delivered",
                            o.id,
                            if panicking { "it had caught the re-raised panic of a scoped child" } else { "control: none of its scoped children panicked" },
                            b - b0,
                            b0
                        ));
                        stopped = true;
                        l.stop.store(true, Ordering::SeqCst);
                        break;
                    }
                    std::thread::sleep(Duration::from_micros(20));
                }
                call("join", o.id as u64, 0);
                let r = h.join();
                let code = match &r {
                    Ok(_) => 0,
                    Err(e) => match e.downcast_ref::<generator::Error>() {
                        Some(generator::Error::Cancel) => 2,
                        _ => 1,
                    },
                };
                ret("join", code);
                if !stopped && code != 2 {
                    fail(format!("uncancellable: the JoinHandle of the cancelled owner c{} yielded {} instead of Error::Cancel",
                        o.id, if code == 0 { "a value" } else { "a foreign panic payload" }));
                }
            }
            // the workers are fine: fresh coroutines run
            let hs: Vec<_> = (0..4).map(|k| unsafe { coroutine::spawn(move || { coroutine::yield_now(); k }) }).collect();
            for (k, h) in hs.into_iter().enumerate() {
                if h.join().ok() != Some(k) {
                    fail("isolation: a fresh coroutine did not return its value".to_string());
                }
            }
            super::quiesce(3);
            let mut out = std::mem::take(&mut *fails.lock().unwrap_or_else(|e| e.into_inner()));
            super::classify_f10(&mut out);
            out
        }),
    }
}
