//! C08 (live mode): family `sleep_live` - `may::coroutine::sleep` on the real runtime (real timer thread, real clock).
//!
//! 2-8 coroutines `c:c<i>x<tag>` and 1-2 plain threads `t<j>` run 1-6 operations each:
//!   S<ns>  `coroutine::sleep(d)`         (thread context: the documented fall-back to `thread::sleep`)
//!   P<ns>  `coroutine::park_timeout(d)`  on the coroutine's own Park; NOBODY unparks, only the time-out can end it
//!   Y<k>   k x `coroutine::yield_now()`  (moves a coroutine that was resumed on the timer thread back to a worker, so
//!                                         that the next `subscribe` runs on a worker and really races the timer thread)
//! with d from a stratified sample: 0, 1 ns, 999 ns, 1 us .. 999 us, 999.999 us, 1 ms, 1 ms + 1 ns, 1-5 ms and
//! non-integral milliseconds (F2 was a truncation defect: sub-millisecond and boundary values matter).
//!
//! The filter holds src/sleep.rs, src/timeout_list.rs, src/park.rs (and the cancel data the subscribe side touches), so
//! the seeded perturbation (a yield / 20-200 us / 0.5-2 ms pause BEFORE a hooked operation) stalls the kernel tail
//! between the steps of `Sleep::subscribe` / `Park::subscribe` and inside `TimerThread::add_timer`
//! (`tl.push`, `in_use.fetch_add`, `bh.push`, `wakeup.take`), and the timer thread inside `schedule_timer`.
//!
//! API boundary events (same names as family `cancel`, so that the replay can use the Cancel model's subscribe steps):
//!   call co.sleep ns 0    ret co.sleep 0          call co.park ns 0    ret co.park 0          call co.yield 0 0    ret co.yield 0
//!
//! Oracles (independent of the model, no real-time UPPER bound anywhere):
//!  * completion: every operation returns. Nobody rescues a sleeper: a lost time-out ends as the watchdog's `hang` report.
//!  * never early: `Instant` right around the call; `sleep(d)` must take >= d, in coroutine and in thread context (exact).
//!    `park_timeout(d)`: the same bound for the FIRST timed park of a coroutine only (a later park on the same Park may
//!    legitimately be ended early by a stale entry - `park_timeout` is allowed to wake spuriously).
//!  * one resume per wait: the calls of an actor are strictly sequential (an `inside` flag per actor is never found set at a
//!    call nor clear at a return), every actor finishes all its operations exactly once, the coroutine's join result is Ok
//!    (no panic: a sleeper never sees a Cancel), a value owned by the coroutine's stack is dropped exactly once.
use super::{quiesce, spawn_actor_thread, LiveBuilt};
use crate::rt::{call, ret, Rng};
use may::coroutine;
use std::sync::atomic::{AtomicBool, AtomicUsize, Ordering};
use std::sync::{Arc, Mutex};
use std::time::{Duration, Instant};

#[derive(Clone, Copy, Debug)]
enum Op {
    Sleep(u64), // ns
    Park(u64),  // ns
    Yield(u64), // times
}

impl Op {
    fn code(&self) -> String {
        match self {
            Op::Sleep(ns) => format!("S{ns}"),
            Op::Park(ns) => format!("P{ns}"),
            Op::Yield(k) => format!("Y{k}"),
        }
    }
}

/// stratified sample of the durations the property quantifies over (kept <= 5.5 ms so that a scenario stays short)
fn gen_dur(rng: &mut Rng) -> u64 {
    match rng.below(16) {
        0 | 1 => 0,
        2 => 1,
        3 => 999,
        4 => 1_000,
        5 | 6 => 1_000 * (1 + rng.below(999)),           // 1 us .. 999 us, whole microseconds
        7 => 1 + rng.below(999_999),                      // anything below 1 ms
        8 => 999_000,
        9 => 999_999,
        10 => 1_000_000,
        11 => 1_000_001,
        12 | 13 => 1_000_000 * (1 + rng.below(5)),        // 1 .. 5 ms
        14 => 1_000_000 * (1 + rng.below(5)) + [1, 500_000, 999_999][rng.below(3) as usize], // k ms +1 ns / +0.5 ms / +999.999 us
        _ => 1_000_000 + rng.below(4_000_000),            // non-integral milliseconds
    }
}

fn gen_ops(rng: &mut Rng, tier: u32, is_co: bool) -> Vec<Op> {
    let n = 1 + rng.below(6) as usize;
    let mut ops = vec![];
    while ops.len() < n {
        if !is_co {
            ops.push(Op::Sleep(gen_dur(rng)));
            continue;
        }
        // a wait is preceded by a yield in most cases: a coroutine that a time-out resumed keeps running ON THE TIMER
        // THREAD until it is rescheduled, and a `subscribe` that runs there cannot race the timer thread
        let k = rng.below(100);
        if k < 62 {
            if !ops.is_empty() && rng.chance(650) {
                ops.push(Op::Yield(1));
            }
            ops.push(Op::Sleep(gen_dur(rng)));
        } else if k < 85 {
            if !ops.is_empty() && rng.chance(650) {
                ops.push(Op::Yield(1));
            }
            ops.push(Op::Park(gen_dur(rng)));
        } else {
            ops.push(Op::Yield(1 + rng.below(if tier > 0 { 3 } else { 2 })));
        }
    }
    ops
}

/// which order does `Sleep::subscribe` of the tree under test have (`set_co` before the timer is armed)? and does
/// `CancelImpl::set_co` look at `is_disabled()` first (F16)? The Cancel model has the variants; the header selects them.
fn tree_variant() -> (bool, bool) {
    let repo = std::env::var("VERIF_REPO").unwrap_or_else(|_| "/repo".into());
    let fixed = match std::fs::read_to_string(format!("{repo}/src/sleep.rs")) {
        Ok(s) => matches!((s.find(".set_co("), s.find(".add_timer(")), (Some(a), Some(b)) if a < b),
        Err(_) => false,
    };
    let setco = match std::fs::read_to_string(format!("{repo}/src/cancel.rs")) {
        Ok(s) => match s.find("pub fn set_co(") {
            Some(a) => {
                let body = &s[a..];
                let end = body.find("\n    }").unwrap_or(body.len());
                body[..end].contains("is_disabled()")
            }
            None => false,
        },
        Err(_) => false,
    };
    (fixed, setco)
}

struct DropCounter(Arc<AtomicUsize>);
impl Drop for DropCounter {
    fn drop(&mut self) {
        self.0.fetch_add(1, Ordering::SeqCst);
    }
}

/// per-actor bookkeeping of the oracles
struct Book {
    name: String,
    inside: AtomicBool,
    done_ops: AtomicUsize,
    finished: AtomicUsize,
    fails: Mutex<Vec<String>>,
}

impl Book {
    fn new(name: String) -> Arc<Self> {
        Arc::new(Book { name, inside: AtomicBool::new(false), done_ops: AtomicUsize::new(0), finished: AtomicUsize::new(0), fails: Mutex::new(vec![]) })
    }
    fn fail(&self, m: String) {
        self.fails.lock().unwrap_or_else(|e| e.into_inner()).push(m);
    }
    fn enter(&self, i: usize) {
        if self.inside.swap(true, Ordering::SeqCst) {
            self.fail(format!("resumed twice: {} begins operation #{i} while an earlier call of it has not returned", self.name));
        }
    }
    fn leave(&self, i: usize) {
        if !self.inside.swap(false, Ordering::SeqCst) {
            self.fail(format!("resumed twice: {} returns from operation #{i} a second time", self.name));
        }
        if self.done_ops.fetch_add(1, Ordering::SeqCst) != i {
            self.fail(format!("resumed twice: {} completed operation #{i} out of sequence", self.name));
        }
    }
}

fn fmt_ns(ns: u64) -> String {
    if ns % 1_000_000 == 0 {
        format!("{} ms", ns / 1_000_000)
    } else if ns % 1_000 == 0 {
        format!("{} us", ns / 1_000)
    } else {
        format!("{ns} ns")
    }
}

/// the body shared by coroutines and threads
fn body(ops: Vec<Op>, is_co: bool, bk: Arc<Book>) {
    let mut first_park = true;
    for (i, op) in ops.into_iter().enumerate() {
        match op {
            Op::Sleep(ns) => {
                let d = Duration::from_nanos(ns);
                call("co.sleep", ns, 0);
                bk.enter(i);
                let t0 = Instant::now();
                coroutine::sleep(d);
                let el = t0.elapsed();
                bk.leave(i);
                ret("co.sleep", 0);
                if el < d {
                    bk.fail(format!(
                        "early: sleep({}) of {} ({} context, operation #{i}) returned after {} ns, before the requested duration had elapsed",
                        fmt_ns(ns),
                        bk.name,
                        if is_co { "coroutine" } else { "thread" },
                        el.as_nanos()
                    ));
                }
            }
            Op::Park(ns) => {
                let d = Duration::from_nanos(ns);
                call("co.park", ns, 0);
                bk.enter(i);
                let t0 = Instant::now();
                coroutine::park_timeout(d);
                let el = t0.elapsed();
                bk.leave(i);
                ret("co.park", 0);
                if first_park && el < d {
                    bk.fail(format!(
                        "early: the first park_timeout({}) of {} (operation #{i}, fresh Park, nobody unparks) returned after {} ns, before the requested duration had elapsed",
                        fmt_ns(ns),
                        bk.name,
                        el.as_nanos()
                    ));
                }
                first_park = false;
            }
            Op::Yield(k) => {
                bk.enter(i);
                for _ in 0..k {
                    call("co.yield", 0, 0);
                    coroutine::yield_now();
                    ret("co.yield", 0);
                }
                bk.leave(i);
            }
        }
    }
    bk.finished.fetch_add(1, Ordering::SeqCst);
}

/// An idle worker wakes up from `epoll_wait` every `config().get_timeout_ns()` (default 10 ms) and looks at ITS io timer
/// list (`schedule_timer`: hooked operations constructed in src/timeout_list.rs, which this family keeps in its filter).
/// These polls would keep the event counter moving for ever and the watchdog ("no hooked event for hang_ms") could never
/// report a lost sleeper. The poll interval is a public configuration knob of the runtime; the workers read it once when
/// the scheduler starts, i.e. at the first spawn of the process, after the first `build`. Wake-ups of the workers do not
/// depend on it (every `schedule_global` writes the worker's eventfd).
const IDLE_POLL_NS: u64 = 60_000_000_000;

pub fn build(rng: &mut Rng, tier: u32) -> LiveBuilt {
    may::config().set_timeout_ns(IDLE_POLL_NS);
    let nco = 2 + rng.below(7) as usize; // 2..8 coroutines
    let nth = 1 + rng.below(2) as usize; // 1..2 plain threads
    let plans: Vec<Vec<Op>> = (0..nco + nth).map(|k| gen_ops(rng, tier, k < nco)).collect();
    // coroutine names are unique per scenario: a late kernel tail of an earlier scenario's coroutine must not be
    // mistaken for one of this scenario's
    let tag = rng.below(1_000_000);
    let (fixed, setco) = tree_variant();
    let header = format!(
        "family=sleep_live tag={tag} fixed={} setco={} cos={nco} thr={nth} ops={}",
        fixed as u8,
        setco as u8,
        plans.iter().map(|p| p.iter().map(|o| o.code()).collect::<Vec<_>>().join(",")).collect::<Vec<_>>().join("/")
    );
    LiveBuilt {
        header,
        filter: vec!["src/sleep.rs", "src/timeout_list.rs", "src/park.rs", "src/cancel.rs", "io/sys/unix/cancel.rs"],
        hang_ms: 3500,
        run: Box::new(move || {
            let mut fails = vec![];
            let books: Vec<Arc<Book>> = (0..nco + nth)
                .map(|k| Book::new(if k < nco { format!("c:c{}x{tag}", k + 1) } else { format!("t{}", k - nco + 1) }))
                .collect();
            let drops: Vec<Arc<AtomicUsize>> = (0..nco).map(|_| Arc::new(AtomicUsize::new(0))).collect();
            let mut hs = vec![];
            for k in 0..nco {
                let (plan, bk, d) = (plans[k].clone(), books[k].clone(), drops[k].clone());
                hs.push(unsafe {
                    coroutine::Builder::new()
                        .name(format!("c{}x{tag}", k + 1))
                        .spawn(move || {
                            let _dc = DropCounter(d);
                            body(plan, true, bk);
                        })
                        .unwrap()
                });
            }
            let mut ts = vec![];
            for k in nco..nco + nth {
                let (plan, bk) = (plans[k].clone(), books[k].clone());
                ts.push(spawn_actor_thread(&format!("t{}", k - nco + 1), move || body(plan, false, bk)));
            }
            // nobody rescues: a sleeper whose time-out is lost blocks this join for ever, the watchdog reports the hang
            for (k, h) in hs.into_iter().enumerate() {
                if let Err(e) = h.join() {
                    let msg = e
                        .downcast_ref::<String>()
                        .cloned()
                        .or(e.downcast_ref::<&str>().map(|s| s.to_string()))
                        .unwrap_or_else(|| format!("{:?}", e.downcast_ref::<generator::Error>()));
                    fails.push(format!("result not Ok: coroutine c{}x{tag} ended with a panic ({msg}) although nobody cancels", k + 1));
                }
            }
            for (k, t) in ts.into_iter().enumerate() {
                if t.join().is_err() {
                    fails.push(format!("thread actor t{} panicked", k + 1));
                }
            }
            // late events of the runtime threads on behalf of this scenario (a park entry that the deadline re-check of
            // `Park::subscribe` overtook is still popped by the timer thread; removals are processed) belong to its trace
            quiesce(4);
            for (k, bk) in books.iter().enumerate() {
                fails.extend(bk.fails.lock().unwrap_or_else(|e| e.into_inner()).drain(..));
                let (f, n) = (bk.finished.load(Ordering::SeqCst), bk.done_ops.load(Ordering::SeqCst));
                if f != 1 || n != plans[k].len() {
                    fails.push(format!("incomplete: {} finished {f} times and completed {n} of {} operations", bk.name, plans[k].len()));
                }
            }
            for (k, d) in drops.iter().enumerate() {
                let d = d.load(Ordering::SeqCst);
                if d != 1 {
                    fails.push(format!("drop counter: the value owned by the stack of c{}x{tag} was dropped {d} times", k + 1));
                }
            }
            fails
        }),
    }
}
