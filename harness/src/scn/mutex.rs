//! C05: may::sync::Mutex in thread context (det mode)
use super::Built;
use crate::rt::{call, ret, Actor, Rng};
use may::sync::Mutex;
use std::sync::atomic::{AtomicUsize, Ordering};
use std::sync::Arc;

#[derive(Clone, Copy, Debug)]
enum Op {
    Lock,
    TryLock,
}

pub fn build(rng: &mut Rng, tier: u32) -> Built {
    let nt = 2 + rng.below(if tier > 0 { 4 } else { 3 }) as usize;
    let max_ops = if tier > 0 { 5 } else { 3 };
    let m = Arc::new(Mutex::new(0usize));
    let occ = Arc::new(AtomicUsize::new(0));
    let max_occ = Arc::new(AtomicUsize::new(0));
    let acquired = Arc::new(AtomicUsize::new(0));
    let mut actors: Vec<Actor> = vec![];
    let mut names = vec![];
    let mut desc = vec![];
    for t in 0..nt {
        let nops = 1 + rng.below(max_ops) as usize;
        let ops: Vec<Op> = (0..nops)
            .map(|_| if rng.chance(250) { Op::TryLock } else { Op::Lock })
            .collect();
        desc.push(ops.iter().map(|o| match o { Op::Lock => 'L', Op::TryLock => 'T' }).collect::<String>());
        let (m, occ, mx, acq) = (m.clone(), occ.clone(), max_occ.clone(), acquired.clone());
        names.push(format!("t{t}"));
        actors.push(Box::new(move || {
            for op in ops {
                let g = match op {
                    Op::Lock => {
                        call("mutex.lock", 0, 0);
                        let g = m.lock().unwrap();
                        // oracle bookkeeping happens before the return event so that it is inside the critical section
                        let o = occ.fetch_add(1, Ordering::SeqCst) + 1;
                        mx.fetch_max(o, Ordering::SeqCst);
                        ret("mutex.lock", 1);
                        Some(g)
                    }
                    Op::TryLock => {
                        call("mutex.try_lock", 0, 0);
                        match m.try_lock() {
                            Ok(g) => {
                                let o = occ.fetch_add(1, Ordering::SeqCst) + 1;
                                mx.fetch_max(o, Ordering::SeqCst);
                                ret("mutex.try_lock", 1);
                                Some(g)
                            }
                            Err(_) => {
                                ret("mutex.try_lock", 0);
                                None
                            }
                        }
                    }
                };
                if let Some(mut g) = g {
                    *g += 1;
                    acq.fetch_add(1, Ordering::SeqCst);
                    call("mutex.unlock", 0, 0);
                    occ.fetch_sub(1, Ordering::SeqCst);
                    drop(g);
                    ret("mutex.unlock", 0);
                }
            }
        }));
    }
    let (m2, mx2, acq2) = (m.clone(), max_occ.clone(), acquired.clone());
    Built {
        header: format!("family=mutex actors={} ops={}", nt, desc.join(",")),
        names,
        actors,
        check: Box::new(move |r| {
            let mut v = vec![];
            if mx2.load(Ordering::SeqCst) > 1 {
                v.push(format!("mutual exclusion violated: {} holders at once", mx2.load(Ordering::SeqCst)));
            }
            if r.deadlock.is_none() && !r.budget_exceeded && r.panics.is_empty() {
                let data = *m2.lock().unwrap();
                if data != acq2.load(Ordering::SeqCst) {
                    v.push(format!("payload {} != acquisitions {}", data, acq2.load(Ordering::SeqCst)));
                }
            }
            v
        }),
        filter: vec!["sync/mutex.rs", "sync/blocking.rs"],
        timeout_permille: 0,
    }
}
