//! C14 (and the scoped part of C13): `coroutine::scope`, `join!`, `ScopedJoinHandle::join` on the real runtime.
//!
//! A scenario is a seeded tree of coroutines: an owner opens a scope with 1–4 children that borrow from the
//! owner's stack frame and run a few steps (yield / sleep / spin); children may own nested scopes (explicit
//! `scope` or `join!`); at most one *fault* is injected: the owner panics at the end of `f` after spawning, a
//! leaf panics, or another actor (thread `t1`) cancels an owner at a seeded moment (inside `f` / while it waits
//! in the joins of `drop_all`).
//!
//! Oracles (independent of the model)
//!  * **frame alive**: every owner keeps a `Frame` on its stack, declared before the scope call; its `Drop`
//!    (which runs when `scope` has returned *or* unwound) clears an `Arc<AtomicBool>`. Every descendant checks the
//!    flags of all its ancestors at every step: a step executed after an ancestor's frame is gone = violation
//!    (reported as `F5: ...`; the children then run on a dead frame);
//!  * results: an explicit `ScopedJoinHandle::join` returns exactly the value its child returned; the value
//!    the top owner computes from them reaches `main` through its `JoinHandle`;
//!  * a child's panic (and the owner's own panic in `f`) is re-raised in the owner and reaches `main` with the
//!    identical payload;
//!  * completion: every spawned coroutine ends (watchdog otherwise).
//!
//! Trace = API-level events (`scope.enter/spawn/fend/fpanic`, `sjoin`, `child.begin/end/panic`, `frame.drop`,
//! `spawn`, `join`, `cancel`) + the hooked operations of `join.rs` (Join.state, Join.to_wake), the result / panic
//! slots (`coroutine_impl.rs`, `scoped.rs`) and `cancel.rs` (the cancel word: the canceller's `fetch_or(1)` and the
//! `fetch_add(2)` / `fetch_sub(2)` of the `disable_cancel` bracket of `JoinState::join` are replayed, the loads skipped).
use super::{spawn_actor_thread, LiveBuilt};
use crate::rt::{call, ret, Rng};
use may::coroutine;
use std::sync::atomic::{AtomicBool, AtomicUsize, Ordering};
use std::sync::{Arc, Mutex as StdMutex};
use std::time::Duration;

#[derive(Clone, Copy, Debug)]
pub enum Step {
    Yield,
    Sleep(u64),
    Spin(u32),
}

#[derive(Clone, Copy, Debug, PartialEq)]
pub enum End {
    Return,
    Panic(u64),
}

pub struct ScopeSpec {
    pub kids: Vec<Node>,
    /// use the `join!` macro (2 or 3 kids, unnamed, no explicit joins, no steps inside `f`)
    pub join_macro: bool,
    /// indices of kids joined explicitly inside `f`, in this order
    pub explicit: Vec<usize>,
    /// what the owner does inside `f` after spawning
    pub in_f: Vec<Step>,
    /// the owner panics with this payload at the end of `f`
    pub f_panic: Option<u64>,
}

pub struct Node {
    pub id: usize,
    pub pre: Vec<Step>,
    pub scope: Option<ScopeSpec>,
    pub post: Vec<Step>,
    pub end: End,
}

/// panic payload of injected panics (identity is checked by the oracle)
pub struct Payload(pub u64);

pub struct Ctx {
    pub fails: StdMutex<Vec<String>>,
    pub spawned: AtomicUsize,
    pub ended: AtomicUsize,
    /// coroutine to cancel: (node id, phase it must have reached: 1 = children spawned, 2 = leaving `f`)
    pub cancel: Option<(usize, usize)>,
    pub phase: AtomicUsize,
    pub target: StdMutex<Option<coroutine::Coroutine>>,
    pub dead_steps: AtomicUsize,
}

impl Ctx {
    pub fn new(cancel: Option<(usize, usize)>) -> Ctx {
        Ctx {
            fails: StdMutex::new(vec![]),
            spawned: AtomicUsize::new(0),
            ended: AtomicUsize::new(0),
            cancel,
            phase: AtomicUsize::new(0),
            target: StdMutex::new(None),
            dead_steps: AtomicUsize::new(0),
        }
    }
    /// oracle failures recorded by the coroutines so far (F5 summary first)
    pub fn take_fails(&self) -> Vec<String> {
        let mut fails = std::mem::take(&mut *self.fails.lock().unwrap_or_else(|e| e.into_inner()));
        let dead = self.dead_steps.load(Ordering::SeqCst);
        if dead > 0 {
            fails.insert(0, format!("F5: {dead} steps of scoped coroutines were executed after their owner had left the scope"));
        }
        fails
    }
    fn fail(&self, s: String) {
        let mut f = self.fails.lock().unwrap_or_else(|e| e.into_inner());
        if f.len() < 8 {
            f.push(s);
        }
    }
}

/// lives on the owner's stack, declared before the scope call: dropped when the scope was left (either way)
struct Frame {
    alive: Arc<AtomicBool>,
    id: usize,
    slots: [AtomicUsize; 4],
}
impl Drop for Frame {
    fn drop(&mut self) {
        call("frame.drop", self.id as u64, 0);
        self.alive.store(false, Ordering::SeqCst);
    }
}

struct EndGuard<'a>(&'a Ctx);
impl Drop for EndGuard<'_> {
    fn drop(&mut self) {
        self.0.ended.fetch_add(1, Ordering::SeqCst);
    }
}

/// ancestors of a running node: (owner id, its frame-alive flag)
type Anc = Vec<(usize, Arc<AtomicBool>)>;

fn check_alive(me: usize, at: &str, anc: &Anc, ctx: &Ctx) -> bool {
    // this code runs in coroutines that are not unwinding (F10: the flag is per thread, and a coroutine that
    // parks while it unwinds - a scope exit before F10.patch - leaves it raised on its worker)
    if std::thread::panicking() {
        ctx.fail(format!("F10: c{me} is not unwinding but observes thread::panicking() == true ({at})"));
    }
    for (o, a) in anc {
        if !a.load(Ordering::SeqCst) {
            ctx.dead_steps.fetch_add(1, Ordering::SeqCst);
            ctx.fail(format!(
                "F5: scoped coroutine c{me} executes ({at}) after the frame of its scope owner c{o} was dropped"
            ));
            return false;
        }
    }
    true
}

fn do_steps(me: usize, steps: &[Step], anc: &Anc, slot: Option<&AtomicUsize>, ctx: &Ctx) {
    for (i, s) in steps.iter().enumerate() {
        match s {
            Step::Yield => coroutine::yield_now(),
            Step::Sleep(us) => coroutine::sleep(Duration::from_micros(*us)),
            Step::Spin(n) => {
                for _ in 0..*n {
                    std::hint::spin_loop();
                }
            }
        }
        if check_alive(me, &format!("step {i}"), anc, ctx) {
            // the borrowed slot of the parent's frame is only touched while the frame is known to be there
            if let Some(s) = slot {
                s.fetch_add(1, Ordering::Relaxed);
            }
        }
    }
}

/// value a node returns when nothing goes wrong
pub fn expected_value(n: &Node) -> usize {
    let mut v = n.id * 100 + 7;
    if let Some(sc) = &n.scope {
        for &i in &sc.explicit {
            v += expected_value(&sc.kids[i]);
        }
    }
    v
}

/// body of every coroutine of the scenario (and of `main` when the top owner is a thread)
/// `unit`: the closure that runs this node returns `()` (a body of `join!`): that is what the result slots carry
pub fn run_node(n: &Node, anc: Anc, slot: Option<&AtomicUsize>, ctx: &Ctx, unit: bool) -> usize {
    // `anc` is owned by the node: nothing the oracle itself needs lives in a frame that F5 can take away
    let anc = &anc;
    let _eg = EndGuard(ctx);
    call("child.begin", n.id as u64, 0);
    if let Some((t, _)) = ctx.cancel {
        if t == n.id {
            *ctx.target.lock().unwrap_or_else(|e| e.into_inner()) = Some(coroutine::current());
        }
    }
    check_alive(n.id, "begin", anc, ctx);
    do_steps(n.id, &n.pre, anc, slot, ctx);
    let mut v = n.id * 100 + 7;
    if let Some(sc) = &n.scope {
        v += run_scope(n, sc, anc, ctx);
    }
    do_steps(n.id, &n.post, anc, slot, ctx);
    check_alive(n.id, "end", anc, ctx);
    match n.end {
        End::Return => {
            call("child.end", n.id as u64, if unit { 0 } else { v as u64 });
            v
        }
        End::Panic(p) => {
            call("child.panic", n.id as u64, p);
            std::panic::panic_any(Payload(p))
        }
    }
}

struct Job<'a> {
    node: &'a Node,
    anc: Anc,
    slot: &'a AtomicUsize,
    ctx: &'a Ctx,
}
impl Job<'_> {
    fn run(self) {
        run_node(self.node, self.anc, Some(self.slot), self.ctx, true);
    }
}

fn is_target(n: &Node, ctx: &Ctx) -> bool {
    matches!(ctx.cancel, Some((t, _)) if t == n.id)
}

fn run_scope(n: &Node, sc: &ScopeSpec, anc: &Anc, ctx: &Ctx) -> usize {
    let frame = Frame {
        alive: Arc::new(AtomicBool::new(true)),
        id: n.id,
        slots: [AtomicUsize::new(0), AtomicUsize::new(0), AtomicUsize::new(0), AtomicUsize::new(0)],
    };
    let mut anc2 = anc.clone();
    anc2.push((n.id, frame.alive.clone()));
    let target = is_target(n, ctx);
    call("scope.enter", sc.kids.len() as u64, sc.join_macro as u64);
    let r = if sc.join_macro {
        // everything the owner does is decided before the macro runs: log it up front
        for k in &sc.kids {
            call("scope.spawn", k.id as u64, 0);
            ctx.spawned.fetch_add(1, Ordering::SeqCst);
        }
        call("scope.fend", 0, 0);
        if target {
            ctx.phase.store(2, Ordering::SeqCst);
        }
        // `join!` builds non-`move` closures: a body that merely *uses* a reference would capture a pointer into
        // this stack frame. Each body consumes a non-`Copy` job instead, so its closure owns everything it needs
        // (the oracle must keep working on a tree where F5 takes this frame away while the children run).
        let mut jobs: Vec<Job> = sc
            .kids
            .iter()
            .enumerate()
            .map(|(i, k)| Job { node: k, anc: anc2.clone(), slot: &frame.slots[i], ctx })
            .collect();
        let j2 = jobs.pop();
        let j1 = jobs.pop();
        let j0 = jobs.pop();
        match (j0, j1, j2) {
            (Some(j0), Some(j1), Some(j2)) => may::join!(j0.run(), j1.run(), j2.run()),
            (None, Some(j0), Some(j1)) => may::join!(j0.run(), j1.run()),
            _ => unreachable!(),
        }
        0
    } else {
        coroutine::scope(|s| {
            let mut hs = vec![];
            for (i, k) in sc.kids.iter().enumerate() {
                call("scope.spawn", k.id as u64, 0);
                ctx.spawned.fetch_add(1, Ordering::SeqCst);
                let f = &frame;
                let a = anc2.clone();
                let h = unsafe {
                    s.spawn_with_builder(
                        move || run_node(k, a, Some(&f.slots[i]), ctx, false),
                        coroutine::Builder::new().name(format!("c{}", k.id)),
                    )
                };
                hs.push(Some(h));
            }
            if target {
                ctx.phase.store(1, Ordering::SeqCst);
            }
            do_steps(n.id, &sc.in_f, anc, None, ctx);
            let mut acc = 0;
            for &i in &sc.explicit {
                let k = &sc.kids[i];
                call("sjoin", k.id as u64, 0);
                let v = hs[i].take().unwrap().join();
                ret("sjoin", v as u64);
                if v != expected_value(k) {
                    ctx.fail(format!("result: explicit join of c{} returned {v}, expected {}", k.id, expected_value(k)));
                }
                acc += v;
            }
            if let Some(q) = sc.f_panic {
                call("scope.fpanic", q, 0);
                std::panic::panic_any(Payload(q));
            }
            call("scope.fend", 0, 0);
            if target {
                ctx.phase.store(2, Ordering::SeqCst);
            }
            acc
        })
    };
    ret("scope.enter", r as u64);
    // every child of a scope that returned normally has finished: its slot is final
    drop(frame);
    r
}

// ------------------------------------------------------------------ generation

fn gen_steps(rng: &mut Rng, max: u64, long: bool) -> Vec<Step> {
    let n = rng.below(max + 1);
    (0..n)
        .map(|_| match rng.below(if long { 4 } else { 6 }) {
            0 | 1 => Step::Yield,
            2 => Step::Sleep(100 + rng.below(if long { 1500 } else { 500 })),
            3 => Step::Sleep(50 + rng.below(200)),
            _ => Step::Spin(rng.below(2000) as u32),
        })
        .collect()
}

struct Gen {
    next_id: usize,
    owners: Vec<usize>,
    leaves: Vec<usize>,
}

fn gen_node(rng: &mut Rng, g: &mut Gen, depth: u32, long: bool, tier: u32) -> Node {
    let id = g.next_id;
    g.next_id += 1;
    let owns = depth == 0 || (depth < 2 && g.next_id < 9 && rng.below(3) == 0);
    let scope = if owns {
        let join_macro = depth > 0 && rng.below(3) == 0 || depth == 0 && rng.below(6) == 0;
        let nk = if join_macro { 2 + rng.below(2) } else { 1 + rng.below(if depth == 0 { 4 } else { 2 }) } as usize;
        let kids: Vec<Node> = (0..nk).map(|_| gen_node(rng, g, depth + 1, long, tier)).collect();
        let mut explicit = vec![];
        if !join_macro {
            for i in 0..nk {
                if rng.below(3) == 0 {
                    explicit.push(i);
                }
            }
            if rng.below(2) == 0 {
                explicit.reverse();
            }
        }
        g.owners.push(id);
        Some(ScopeSpec {
            kids,
            join_macro,
            explicit,
            in_f: if join_macro { vec![] } else { gen_steps(rng, 2, false) },
            f_panic: None,
        })
    } else {
        g.leaves.push(id);
        None
    };
    Node {
        id,
        pre: gen_steps(rng, if scope.is_some() { 1 } else { 5 + 3 * tier as u64 }, long && scope.is_none()),
        scope,
        post: gen_steps(rng, 1, false),
        end: End::Return,
    }
}

fn find_mut(n: &mut Node, id: usize) -> Option<&mut Node> {
    if n.id == id {
        return Some(n);
    }
    if let Some(sc) = n.scope.as_mut() {
        for k in sc.kids.iter_mut() {
            if let Some(x) = find_mut(k, id) {
                return Some(x);
            }
        }
    }
    None
}

/// the panic payload `main` must see, if the fault is a panic (re-raised through every enclosing scope)
fn payload_of(e: &(dyn std::any::Any + Send)) -> Option<u64> {
    e.downcast_ref::<Payload>().map(|p| p.0)
}

pub fn build(rng: &mut Rng, tier: u32) -> LiveBuilt {
    // actor ids: 0 = main, 1 = t1 (canceller), 2.. = coroutines c2, c3, ...
    let fault = rng.below(10); // 0-3 none, 4 owner panic, 5-6 leaf panic, 7-9 cancel an owner
    let thread_owner = fault < 7 && rng.below(6) == 0;
    let mut g = Gen { next_id: 2, owners: vec![], leaves: vec![] };
    let mut top = gen_node(rng, &mut g, 0, fault >= 7, tier);
    let mut cancel = None;
    let mut cancel_delay = 0;
    let mut expect_payload: Option<u64> = None;
    let fname;
    match fault {
        4 => {
            let o = g.owners[rng.below(g.owners.len() as u64) as usize];
            let n = find_mut(&mut top, o).unwrap();
            let sc = n.scope.as_mut().unwrap();
            if sc.join_macro {
                fname = "none";
            } else {
                let q = 9000 + o as u64;
                sc.f_panic = Some(q);
                expect_payload = Some(q);
                fname = "ownerpanic";
            }
        }
        5 | 6 => {
            let l = g.leaves[rng.below(g.leaves.len() as u64) as usize];
            let p = 7000 + l as u64;
            find_mut(&mut top, l).unwrap().end = End::Panic(p);
            expect_payload = Some(p);
            fname = "childpanic";
        }
        7..=9 => {
            let o = g.owners[rng.below(g.owners.len() as u64) as usize];
            let jm = find_mut(&mut top, o).unwrap().scope.as_ref().unwrap().join_macro;
            let phase = if jm || rng.below(4) != 0 { 2 } else { 1 };
            cancel = Some((o, phase));
            cancel_delay = rng.below(5) * rng.below(120);
            fname = "cancel";
        }
        _ => fname = "none",
    }
    let nact = g.next_id;
    if thread_owner {
        top.id = 0; // the thread `main` itself is the top owner
    }
    let header = format!(
        "family=scope actors={nact} fault={fname} thread_owner={} cancel={}",
        thread_owner as u8,
        cancel.map(|c| c.0 as i64).unwrap_or(-1)
    );
    let top = Arc::new(top);
    LiveBuilt {
        header,
        filter: vec!["src/join.rs", "src/coroutine_impl.rs", "src/scoped.rs", "src/cancel.rs"],
        hang_ms: 4000,
        run: Box::new(move || {
            // injected panics are part of the scenario: keep them quiet, report everything else
            std::panic::set_hook(Box::new(|info| {
                let cancel = info.location().map(|l| l.file().ends_with("cancel.rs")).unwrap_or(false);
                if info.payload().downcast_ref::<Payload>().is_none() && !cancel {
                    eprintln!("unexpected panic: {info}");
                }
            }));
            // scenario bodies format strings and unwind: the default 32 KiB coroutine stack is too small for that
            // (set before the first spawn of the process creates the stack pool; the same value every time)
            may::config().set_stack_size(0x8000);
            let ctx = Arc::new(Ctx::new(cancel));
            let top_done = Arc::new(AtomicBool::new(false));
            let canceller = cancel.map(|(tid, phase)| {
                let (ctx, top_done) = (ctx.clone(), top_done.clone());
                spawn_actor_thread("t1", move || {
                    while ctx.phase.load(Ordering::SeqCst) < phase && !top_done.load(Ordering::SeqCst) {
                        std::thread::sleep(Duration::from_micros(20));
                    }
                    if cancel_delay > 0 {
                        std::thread::sleep(Duration::from_micros(cancel_delay));
                    }
                    let co = ctx.target.lock().unwrap_or_else(|e| e.into_inner()).clone();
                    if let Some(co) = co {
                        call("cancel", tid as u64, 0);
                        unsafe { co.cancel() };
                        ret("cancel", 0);
                    }
                })
            });
            ctx.spawned.fetch_add(1, Ordering::SeqCst);
            // outcome: Ok(value) | Err(Some(payload)) | Err(None) (cancel or foreign payload)
            let outcome: Result<usize, Option<u64>> = if thread_owner {
                let (t, c) = (top.clone(), ctx.clone());
                std::panic::catch_unwind(std::panic::AssertUnwindSafe(move || run_node(&t, vec![], None, &c, false)))
                    .map_err(|e| payload_of(&*e))
            } else {
                call("spawn", top.id as u64, 0);
                let (t, c) = (top.clone(), ctx.clone());
                let h = unsafe {
                    coroutine::Builder::new()
                        .name(format!("c{}", top.id))
                        .spawn(move || run_node(&t, vec![], None, &c, false))
                        .unwrap()
                };
                call("join", top.id as u64, 0);
                let r = h.join();
                let r = r.map_err(|e| payload_of(&*e));
                ret(
                    "join",
                    match &r {
                        Ok(_) => 0,
                        Err(Some(_)) => 1,
                        Err(None) => 2,
                    },
                );
                r
            };
            top_done.store(true, Ordering::SeqCst);
            if let Some(t) = canceller {
                let _ = t.join();
            }
            // every coroutine that was spawned must end (the watchdog reports a hang otherwise)
            while ctx.ended.load(Ordering::SeqCst) < ctx.spawned.load(Ordering::SeqCst) {
                std::thread::sleep(Duration::from_micros(200));
            }
            // the trigger of a coroutine (state.store, to_wake.take) comes after its body and may be delayed by the
            // perturbation (up to 2 ms per hooked operation): wait until the log has been quiet for a while
            super::quiesce(6);
            let mut fails = ctx.take_fails();
            match (fname, &outcome) {
                ("none", Ok(v)) => {
                    if *v != expected_value(&top) {
                        fails.push(format!("result: top owner returned {v}, expected {}", expected_value(&top)));
                    }
                }
                ("none", Err(e)) => fails.push(format!("result: fault-free scenario ended with a panic {e:?}")),
                ("ownerpanic", r) | ("childpanic", r) => {
                    if *r != Err(expect_payload) {
                        fails.push(format!("panic: the payload {expect_payload:?} was not propagated to the top joiner, got {r:?}"));
                    }
                }
                _ => {} // cancel: Ok (cancel came too late) or Err(Cancel)
            }
            // (a process is tainted only by an actual `F10:` observation: since F10.patch a scope exit catches the
            // owner's panic before it waits, so an owner that panics or is cancelled no longer parks while unwinding)
            super::classify_f10(&mut fails);
            fails
        }),
    }
}
