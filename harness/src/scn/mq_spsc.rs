//! C03: `may_queue::spsc::Queue` called directly (layer L0, det mode), block cache (`inner_cache`) enabled.
//!
//! `t0` = consumer (creates and finally drops the queue), `t1` = the single producer. The producer first pushes
//! `fill` values, then opens the consumer's gate and goes on pushing; the consumer first drains down to a chosen
//! occupancy and then runs its list of pop / bulk_pop / peek / len / is_empty operations, all of it concurrently
//! with the producer. `fill` places the run shortly before / after the 32-slot block boundary (and, in longer
//! runs, after several blocks so that blocks are recycled through `first / last_head`).
//!
//! Oracles (independent of the model): strict FIFO (the values come out exactly in the order 0,1,2,…), nothing
//! lost or duplicated (payload drop counters, popped ⊎ dropped = pushed), `None` / empty bulk / `peek None` only
//! if every push that completed before the call had already been consumed, `Some` only for a push that had
//! started, `len` between the two bounds.
use super::mq_mpsc::{block_oracle, open_gate, park_gate, reset_drops, COp, Item, DROPS};
use super::Built;
use crate::rt::{call, ret, Actor, Rng};
use may_queue::spsc::{Queue, BLOCK_SIZE};
use std::cell::UnsafeCell;
use std::sync::atomic::{AtomicUsize, Ordering};
use std::sync::{Arc, Mutex};

struct Cell<Q>(UnsafeCell<Option<Q>>);
unsafe impl<Q> Sync for Cell<Q> {}
unsafe impl<Q> Send for Cell<Q> {}

pub fn build(rng: &mut Rng, tier: u32) -> Built {
    // every seventh scenario of the random family is a ring scenario (see `build_ring`)
    let ring = rng.chance(150);
    build_kind(rng, tier, ring, "mq_spsc")
}

/// family `mq_spsc_ring` (small, meant for systematic exploration `detx`): the queue runs on a ring of two blocks.
/// The producer pushes 2·B−1−j values (blocks 0 and 1, block cache exhausted: `first == last_head`), then – racing
/// with the consumer – the push that fills block 1 (it calls `alloc_node`, which re-reads `head.block` and recycles
/// block 0 if the consumer has released it) and one or two more (which overwrite slots of the recycled block);
/// the consumer `bulk_pop`s whole blocks: its first bulk_pop ends exactly on the block boundary and hands block 0
/// over with its `head.block` store. The FIFO / loss / duplicate oracles are those of `mq_spsc`.
pub fn build_ring(rng: &mut Rng, tier: u32) -> Built {
    build_kind(rng, tier, true, "mq_spsc_ring")
}

fn build_kind(rng: &mut Rng, tier: u32, ring: bool, family: &'static str) -> Built {
    let b = BLOCK_SIZE;
    let max_ops = if tier > 0 { 10 } else { 6 };
    // where the contended phase starts relative to the block boundary
    let fill = match rng.below(8) {
        0 => 0,
        1 => rng.below(4) as usize,
        2 | 3 => {
            let laps = 2 + rng.below(if tier > 0 { 4 } else { 2 }) as usize;
            laps * b - 3 + rng.below(5) as usize
        }
        _ => b - 3 + rng.below(5) as usize,
    };
    let keep = [0usize, 0, 1, 2, 3, 5, b - 1, b + 1][rng.below(8) as usize].min(fill);
    let drain_bulk = rng.chance(500);
    // the contended pushes: a few, or enough to reach / cross the next block boundary (block recycling)
    let npush = if rng.chance(500) {
        1 + rng.below(max_ops + 2) as usize
    } else {
        (b - fill % b + rng.below(5) as usize).saturating_sub(2)
    };
    // does the producer wait until the consumer has drained (so that consumed blocks can be recycled)?
    let wait_drain = rng.chance(500);
    // long variant: several consumed blocks, then two more block boundaries on the producer side, so that
    // `alloc_node` takes its first branch (`first != last_head`) as well
    let long = rng.chance(if tier > 0 { 200 } else { 100 });
    let (fill, keep, wait_drain, npush) = if long {
        (3 * b - 3 + rng.below(5) as usize, rng.below(3) as usize, true, 2 * b + rng.below(6) as usize)
    } else {
        (fill, keep, wait_drain, npush)
    };
    let ncops = 1 + rng.below(max_ops + 2) as usize;
    let cops: Vec<COp> = (0..ncops)
        .map(|_| match rng.below(20) {
            0..=8 => COp::Pop,
            9..=13 => COp::Bulk,
            14..=15 => COp::Peek,
            16..=17 => COp::Len,
            _ => COp::IsEmpty,
        })
        .collect();
    // ring kind: 2B-1-j values before the race, j+2 or j+3 pushes in it, the consumer takes whole blocks
    let ringj = rng.below(2) as usize;
    let ringk = 2 + rng.below(2) as usize;
    let ring_more = family == "mq_spsc" && rng.chance(500);
    let (fill, keep, wait_drain, npush, cops) = if ring {
        let cops = if ring_more { vec![COp::Bulk, COp::Bulk, COp::Pop] } else { vec![COp::Bulk] };
        (2 * b - 1 - ringj, 2 * b - 1 - ringj, false, ringj + ringk, cops)
    } else {
        (fill, keep, wait_drain, npush, cops)
    };
    let desc: String = cops
        .iter()
        .map(|o| match o {
            COp::Pop => 'o',
            COp::Bulk => 'b',
            COp::Peek => 'k',
            COp::Len => 'l',
            COp::IsEmpty => 'e',
            COp::Push => 'p',
        })
        .collect();
    let total = fill + npush;
    reset_drops();
    let cell: Arc<Cell<Queue<Item>>> = Arc::new(Cell(UnsafeCell::new(None)));
    // number of pushes started / completed (maintained by the producer around each call)
    let started = Arc::new(AtomicUsize::new(0));
    let completed = Arc::new(AtomicUsize::new(0));
    let popped: Arc<Mutex<Vec<usize>>> = Arc::new(Mutex::new(vec![]));
    let msgs: Arc<Mutex<Vec<String>>> = Arc::new(Mutex::new(vec![]));
    let (gate_p, gate_c, done_p, gate_p2) = (0x1000usize, 0x1010usize, 0x1020usize, 0x1030usize);
    let mut actors: Vec<Actor> = vec![];
    {
        let (cell, started, completed, popped, msgs) = (cell.clone(), started.clone(), completed.clone(), popped.clone(), msgs.clone());
        actors.push(Box::new(move || {
            call("mq.new", 0, 0);
            unsafe { *cell.0.get() = Some(Queue::new()) };
            ret("mq.new", 0);
            let q: &Queue<Item> = unsafe { (*cell.0.get()).as_ref().unwrap() };
            open_gate(gate_p);
            park_gate(gate_c);
            let mut nout = 0usize; // values taken so far = next expected value
            let took = |ids: &[usize], nout: &mut usize, what: &str| {
                for id in ids {
                    if *id != *nout {
                        msgs.lock().unwrap().push(format!("{what} returned value {id}, FIFO order expects {nout}"));
                    }
                    if *id >= started.load(Ordering::SeqCst) {
                        msgs.lock().unwrap().push(format!("{what} returned value {id} whose push had not started"));
                    }
                    *nout += 1;
                    popped.lock().unwrap().push(*id);
                }
            };
            let do_op = |op: COp, nout: &mut usize| {
                let c0 = completed.load(Ordering::SeqCst);
                match op {
                    COp::Pop => {
                        call("mq.pop", 0, 0);
                        let r = q.pop();
                        ret("mq.pop", r.as_ref().map(|i| i.id as u64).unwrap_or(u64::MAX));
                        match r {
                            Some(it) => took(&[it.id], nout, "pop"),
                            None => {
                                if c0 > *nout {
                                    msgs.lock().unwrap().push(format!("pop returned None although {} pushes had completed and only {} values were taken", c0, *nout));
                                }
                            }
                        }
                    }
                    COp::Bulk => {
                        call("mq.bulk_pop", 0, 0);
                        let v = q.bulk_pop();
                        for (i, it) in v.iter().enumerate() {
                            call("mq.bulk.item", i as u64, it.id as u64);
                        }
                        ret("mq.bulk_pop", v.len() as u64);
                        if v.is_empty() && c0 > *nout {
                            msgs.lock().unwrap().push(format!("bulk_pop returned nothing although {} pushes had completed and only {} values were taken", c0, *nout));
                        }
                        let ids: Vec<usize> = v.iter().map(|i| i.id).collect();
                        took(&ids, nout, "bulk_pop");
                    }
                    COp::Peek => {
                        call("mq.peek", 0, 0);
                        let r = unsafe { q.peek() }.map(|i| i.id);
                        ret("mq.peek", r.map(|i| i as u64).unwrap_or(u64::MAX));
                        match r {
                            Some(id) => {
                                if id != *nout {
                                    msgs.lock().unwrap().push(format!("peek returned {id}, the head is {}", *nout));
                                }
                            }
                            None => {
                                if c0 > *nout {
                                    msgs.lock().unwrap().push("peek returned None from a non-empty queue".into());
                                }
                            }
                        }
                    }
                    COp::Len | COp::IsEmpty => {
                        let l = if op == COp::Len {
                            call("mq.len", 0, 0);
                            let l = q.len();
                            ret("mq.len", l as u64);
                            Some(l)
                        } else {
                            call("mq.is_empty", 0, 0);
                            let e = q.is_empty();
                            ret("mq.is_empty", e as u64);
                            if e { Some(0) } else { None }
                        };
                        let s1 = started.load(Ordering::SeqCst);
                        match l {
                            Some(l) => {
                                if l + *nout < c0 || l + *nout > s1 {
                                    msgs.lock().unwrap().push(format!("len {} outside [{}, {}]", l, c0 - (*nout).min(c0), s1 - *nout));
                                }
                            }
                            None => {
                                if s1 == *nout {
                                    msgs.lock().unwrap().push("is_empty returned false although nothing can be in the queue".into());
                                }
                            }
                        }
                    }
                    COp::Push => {}
                }
            };
            // drain down to `keep` (counted against the prologue pushes only)
            while fill - nout.min(fill) > keep {
                let before = nout;
                let chunk = (fill - nout).min(b - nout % b);
                if drain_bulk && fill - nout - chunk >= keep {
                    do_op(COp::Bulk, &mut nout);
                } else {
                    do_op(COp::Pop, &mut nout);
                }
                if nout == before {
                    msgs.lock().unwrap().push("prologue: nothing came out of a non-empty queue".into());
                    break;
                }
            }
            if wait_drain {
                open_gate(gate_p2);
            }
            for op in cops {
                do_op(op, &mut nout);
            }
            park_gate(done_p);
            call("mq.drop", 0, 0);
            unsafe { *cell.0.get() = None };
            ret("mq.drop", 0);
        }));
    }
    {
        let (cell, started, completed) = (cell.clone(), started.clone(), completed.clone());
        actors.push(Box::new(move || {
            park_gate(gate_p);
            let q: &Queue<Item> = unsafe { (*cell.0.get()).as_ref().unwrap() };
            for id in 0..total {
                if id == fill {
                    open_gate(gate_c);
                    if wait_drain {
                        park_gate(gate_p2);
                    }
                }
                started.fetch_add(1, Ordering::SeqCst);
                call("mq.push", id as u64, 0);
                q.push(Item { id });
                ret("mq.push", 0);
                completed.fetch_add(1, Ordering::SeqCst);
            }
            if fill == total {
                open_gate(gate_c);
            }
            open_gate(done_p);
        }));
    }
    Built {
        header: format!(
            "family={} actors=2 B={} fill={} keep={} pushes={} wait={} ops={}",
            family, b, fill, keep, npush, wait_drain as u8, desc
        ),
        names: vec!["t0".into(), "t1".into()],
        actors,
        check: Box::new(move |r| {
            let mut v: Vec<String> = msgs.lock().unwrap().clone();
            let complete = r.deadlock.is_none() && !r.budget_exceeded && r.panics.is_empty();
            v.extend(block_oracle(&r.log, "SpscBlock", complete));
            let popped = popped.lock().unwrap().clone();
            let mut seen = std::collections::HashSet::new();
            for x in &popped {
                if *x >= total {
                    v.push(format!("popped value {x} was never pushed"));
                }
                if !seen.insert(*x) {
                    v.push(format!("value {x} popped twice"));
                }
            }
            if complete {
                for (x, d) in DROPS.iter().enumerate().take(total) {
                    let d = d.load(Ordering::SeqCst);
                    if d != 1 {
                        v.push(format!("payload {x} dropped {d} times (lost or duplicated)"));
                    }
                }
            }
            v
        }),
        filter: vec!["src/spsc.rs"],
        timeout_permille: 0,
    }
}
