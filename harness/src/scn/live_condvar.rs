//! C11, live half (family `condvar_live`): may::sync::Condvar with coroutine AND thread waiters on the real runtime,
//! real time-outs, and 1–2 coroutine waiters that are CANCELLED at seeded moments (while parked in the wait, while a
//! notifier is picking them, while they re-lock the mutex).
//!
//! Actor `k` of the model is coroutine `c<k>` (k < coroutines) or thread `t<k>` (one index space); the last actor is the
//! final probe thread. One `Mutex<usize>` ("permits") and one `Condvar`:
//!   * consumers  : standard predicate loop (`wait` or `wait_while`), take one permit per operation;
//!   * producers  : one permit per consumer operation; `notify_one` under the lock (optionally keeping the lock for a
//!                  while afterwards, so that the woken waiter blocks in its re-lock), `notify_one` after the unlock, or
//!                  `notify_all`;
//!   * bystanders : one `wait_timeout` with a real time-out of 2–5 ms; never take a permit; woken WITHOUT time-out they
//!                  pass the notification on themselves (`notify_one`), after a time-out that is the condvar's duty;
//!   * victims    : coroutines like bystanders (untimed `wait`, or `wait_timeout` with 2–4 ms / 300 ms) that a canceller
//!                  thread cancels after a delay, once they are inside the wait, or when a producer is about to notify.
//!                  A cancelled waiter must pass on a notification it was picked for (is_unparked -> notify_one) or mark
//!                  its queue entry (set_release) – the hand-over under test.
//! A correct condvar therefore never leaves a consumer parked while a permit is available.
//!
//! Oracles (independent of the model): completion of every survivor (a consumer that sleeps for ever stops the event
//! stream: the watchdog reports the hang); mutex occupancy <= 1 after every lock / wait return; `wait_while` returns with
//! its condition false; permits produced = consumed; a victim's join reports Ok or Cancel, every other coroutine Ok; no
//! poison; a final probe can lock the mutex.
use super::{spawn_actor_thread, LiveBuilt};
use crate::rt::{call, ret, Rng};
use may::coroutine;
use may::sync::{Condvar, Mutex};
use std::sync::atomic::{AtomicBool, AtomicUsize, Ordering};
use std::sync::{Arc, Mutex as StdMutex};
use std::time::Duration;

#[derive(Clone, Copy, Debug)]
enum Op {
    Wait,                 // consumer: lock; while permits == 0 { wait }; take; unlock
    WaitWhile,            // consumer: lock; wait_while(permits == 0); take; unlock
    Timed(u64),           // bystander: lock; if permits == 0 { wait_timeout(ms) once; Ok => notify_one }; unlock
    Once,                 // victim: lock; if permits == 0 { wait once; Ok => notify_one }; unlock
    NotifyIn(u64),        // producer: lock; permits += 1; notify_one; (hold us); unlock
    NotifyOut,            // producer: lock; permits += 1; unlock; notify_one
    NotifyAll,            // producer: lock; permits += 1; notify_all; unlock
    Pause(u64),           // producer: sleep us (lets the waiters park)
}

#[derive(Clone, Copy, Debug)]
enum Trig {
    Delay(u64),    // us after the start
    InWait(u64),   // us after the victim announced its wait
    OnNotify(usize, u64), // us after the k-th notification was announced
}

struct Shared {
    m: Mutex<usize>,
    cv: Condvar,
    occ: AtomicUsize,
    max_occ: AtomicUsize,
    produced: AtomicUsize,
    consumed: AtomicUsize,
    bad_pred: AtomicUsize,
    notify_stage: AtomicUsize,
    stage: Vec<AtomicUsize>,
    fails: StdMutex<Vec<String>>,
}

impl Shared {
    fn enter(&self) {
        let o = self.occ.fetch_add(1, Ordering::SeqCst) + 1;
        self.max_occ.fetch_max(o, Ordering::SeqCst);
    }
    fn leave(&self) {
        self.occ.fetch_sub(1, Ordering::SeqCst);
    }
    fn lock(&self) -> may::sync::MutexGuard<'_, usize> {
        call("mutex.lock", 0, 0);
        let g = match self.m.lock() {
            Ok(g) => g,
            Err(e) => {
                self.fails.lock().unwrap_or_else(|e| e.into_inner()).push("the mutex is poisoned".into());
                e.into_inner()
            }
        };
        self.enter();
        ret("mutex.lock", 1);
        g
    }
    fn unlock(&self, g: may::sync::MutexGuard<'_, usize>) {
        call("mutex.unlock", 0, 0);
        self.leave();
        drop(g);
        ret("mutex.unlock", 0);
    }
    fn notify_one(&self) {
        call("cv.notify_one", 0, 0);
        self.cv.notify_one();
        ret("cv.notify_one", 0);
    }
}

fn run_ops(sh: &Shared, me: usize, ops: &[Op]) {
    for op in ops {
        match *op {
            Op::Wait => {
                let mut g = sh.lock();
                while *g == 0 {
                    sh.leave();
                    call("cv.wait", 0, 0);
                    g = sh.cv.wait(g).unwrap_or_else(|e| e.into_inner());
                    sh.enter();
                    ret("cv.wait", 0);
                }
                *g -= 1;
                sh.consumed.fetch_add(1, Ordering::SeqCst);
                sh.unlock(g);
            }
            Op::WaitWhile => {
                let g = sh.lock();
                sh.leave();
                call("cv.wait_while", 0, 0);
                let mut g = sh.cv.wait_while(g, |p| *p == 0).unwrap_or_else(|e| e.into_inner());
                sh.enter();
                if *g == 0 {
                    sh.bad_pred.fetch_add(1, Ordering::SeqCst);
                } else {
                    *g -= 1;
                    sh.consumed.fetch_add(1, Ordering::SeqCst);
                }
                ret("cv.wait_while", 0);
                sh.unlock(g);
            }
            Op::Timed(ms) => {
                let mut g = sh.lock();
                if *g == 0 {
                    sh.stage[me].fetch_add(1, Ordering::SeqCst);
                    sh.leave();
                    call("cv.wait_timeout", ms, 0);
                    let (g2, r) = sh.cv.wait_timeout(g, Duration::from_millis(ms)).unwrap_or_else(|e| e.into_inner());
                    g = g2;
                    sh.enter();
                    ret("cv.wait_timeout", r.timed_out() as u64);
                    if !r.timed_out() {
                        sh.notify_one();
                    }
                }
                sh.unlock(g);
            }
            Op::Once => {
                let mut g = sh.lock();
                if *g == 0 {
                    sh.stage[me].fetch_add(1, Ordering::SeqCst);
                    sh.leave();
                    call("cv.wait", 0, 0);
                    g = sh.cv.wait(g).unwrap_or_else(|e| e.into_inner());
                    sh.enter();
                    ret("cv.wait", 0);
                    sh.notify_one();
                }
                sh.unlock(g);
            }
            Op::NotifyIn(hold_us) => {
                let mut g = sh.lock();
                *g += 1;
                sh.produced.fetch_add(1, Ordering::SeqCst);
                sh.notify_stage.fetch_add(1, Ordering::SeqCst);
                sh.notify_one();
                if hold_us > 0 {
                    std::thread::sleep(Duration::from_micros(hold_us));
                }
                sh.unlock(g);
            }
            Op::NotifyOut => {
                let mut g = sh.lock();
                *g += 1;
                sh.produced.fetch_add(1, Ordering::SeqCst);
                sh.unlock(g);
                sh.notify_stage.fetch_add(1, Ordering::SeqCst);
                sh.notify_one();
            }
            Op::NotifyAll => {
                let mut g = sh.lock();
                *g += 1;
                sh.produced.fetch_add(1, Ordering::SeqCst);
                sh.notify_stage.fetch_add(1, Ordering::SeqCst);
                call("cv.notify_all", 0, 0);
                sh.cv.notify_all();
                ret("cv.notify_all", 0);
                sh.unlock(g);
            }
            Op::Pause(us) => std::thread::sleep(Duration::from_micros(us)),
        }
    }
}

/// Ok(true) = finished normally, Ok(false) = ended by the Cancel panic, Err = any other panic
fn classify<T>(r: std::thread::Result<T>) -> Result<bool, String> {
    match r {
        Ok(_) => Ok(true),
        Err(e) => match e.downcast_ref::<generator::Error>() {
            Some(generator::Error::Cancel) => Ok(false),
            Some(other) => Err(format!("generator error {other:?}")),
            None => Err(e
                .downcast_ref::<String>()
                .cloned()
                .or(e.downcast_ref::<&str>().map(|s| s.to_string()))
                .unwrap_or_else(|| "<unknown payload>".into())),
        },
    }
}

fn letter(o: &Op) -> String {
    match o {
        Op::Wait => "W".into(),
        Op::WaitWhile => "H".into(),
        Op::Timed(ms) => format!("T{ms}"),
        Op::Once => "O".into(),
        Op::NotifyIn(h) => if *h > 0 { "N".into() } else { "n".into() },
        Op::NotifyOut => "o".into(),
        Op::NotifyAll => "a".into(),
        Op::Pause(_) => "_".into(),
    }
}

pub fn build(rng: &mut Rng, tier: u32) -> LiveBuilt {
    let nco = 2 + rng.below(if tier > 0 { 4 } else { 3 }) as usize; // coroutines c0..
    let nth = 1 + rng.below(3) as usize; // threads t<nco>..
    let na = nco + nth; // + the final probe thread
    let nvict = 1 + rng.below(2.min(nco as u64 - 1)) as usize; // c0.. are the victims; at least one coroutine survives
    // roles of the others: at least one consumer and one producer
    let mut plans: Vec<Vec<Op>> = vec![vec![]; na];
    let mut trig = vec![];
    for k in 0..nvict {
        let op = match rng.below(10) {
            0..=5 => Op::Once,
            6..=7 => Op::Timed(2 + rng.below(3)),
            _ => Op::Timed(300),
        };
        plans[k].push(op);
        trig.push(match rng.below(10) {
            0..=1 => Trig::Delay(rng.below(2500)),
            2..=5 => Trig::InWait([0, 0, 30, 100, 300, 800][rng.below(6) as usize]),
            _ => Trig::OnNotify(1 + rng.below(2) as usize, [0, 0, 20, 60, 150, 400][rng.below(6) as usize]),
        });
    }
    let others: Vec<usize> = (nvict..na).collect();
    let prod_idx = others[rng.below(others.len() as u64) as usize];
    let mut cons_idx = others[rng.below(others.len() as u64) as usize];
    if cons_idx == prod_idx {
        cons_idx = *others.iter().find(|k| **k != prod_idx).unwrap();
    }
    let mut producers = vec![prod_idx];
    let mut consumer_ops = 0usize;
    for &k in &others {
        if k == prod_idx {
            continue;
        }
        let role = if k == cons_idx { 0 } else { rng.below(10) };
        match role {
            0..=4 => {
                for _ in 0..1 + rng.below(2) {
                    plans[k].push(if rng.chance(600) { Op::Wait } else { Op::WaitWhile });
                    consumer_ops += 1;
                }
            }
            5..=7 => plans[k].push(Op::Timed(2 + rng.below(4))),
            _ => producers.push(k),
        }
    }
    for i in 0..consumer_ops {
        let p = producers[rng.below(producers.len() as u64) as usize];
        if i == 0 || rng.chance(600) {
            plans[p].push(Op::Pause([100, 300, 800, 1500, 3000][rng.below(5) as usize]));
        }
        plans[p].push(match rng.below(10) {
            0..=2 => Op::NotifyIn(0),
            3..=5 => Op::NotifyIn([100, 300, 700, 1500][rng.below(4) as usize]),
            6..=7 => Op::NotifyOut,
            _ => Op::NotifyAll,
        });
    }
    let header = format!(
        "family=condvar_live live=1 actors={} coroutines={} threads={} victims={} ops={} trig={}",
        na + 1,
        nco,
        nth,
        nvict,
        plans.iter().map(|p| p.iter().map(letter).collect::<String>()).collect::<Vec<_>>().join(","),
        trig.iter()
            .map(|t| match t {
                Trig::Delay(u) => format!("d{u}"),
                Trig::InWait(u) => format!("w{u}"),
                Trig::OnNotify(k, u) => format!("n{k}.{u}"),
            })
            .collect::<Vec<_>>()
            .join(",")
    );
    LiveBuilt {
        header,
        filter: vec!["sync/condvar.rs", "sync/mutex.rs", "sync/blocking.rs"],
        hang_ms: 3000,
        run: Box::new(move || {
            let sh = Arc::new(Shared {
                m: Mutex::new(0usize),
                cv: Condvar::new(),
                occ: AtomicUsize::new(0),
                max_occ: AtomicUsize::new(0),
                produced: AtomicUsize::new(0),
                consumed: AtomicUsize::new(0),
                bad_pred: AtomicUsize::new(0),
                notify_stage: AtomicUsize::new(0),
                stage: (0..na).map(|_| AtomicUsize::new(0)).collect(),
                fails: StdMutex::new(vec![]),
            });
            let finished: Vec<Arc<AtomicBool>> = (0..nco).map(|_| Arc::new(AtomicBool::new(false))).collect();
            let mut hs = vec![];
            for k in 0..nco {
                let (sh2, plan, f) = (sh.clone(), plans[k].clone(), finished[k].clone());
                let h = unsafe {
                    coroutine::Builder::new()
                        .name(format!("c{k}"))
                        .spawn(move || {
                            struct SetDone(Arc<AtomicBool>);
                            impl Drop for SetDone {
                                fn drop(&mut self) {
                                    self.0.store(true, Ordering::SeqCst);
                                }
                            }
                            let _sd = SetDone(f);
                            run_ops(&sh2, k, &plan);
                        })
                        .unwrap()
                };
                std::mem::forget(h.coroutine().clone()); // keeps the cancel data alive for a late canceller (see live_cancel.rs)
                hs.push(h);
            }
            let mut ts = vec![];
            for k in nco..na {
                let (sh2, plan) = (sh.clone(), plans[k].clone());
                ts.push(spawn_actor_thread(&format!("t{k}"), move || run_ops(&sh2, k, &plan)));
            }
            // cancellers (not actors of the model: they touch only the cancel data)
            let t_start = std::time::Instant::now();
            let mut cs = vec![];
            for (k, tr) in trig.iter().copied().enumerate() {
                let (co, sh2, f) = (hs[k].coroutine().clone(), sh.clone(), finished[k].clone());
                cs.push(
                    std::thread::Builder::new()
                        .name(format!("x{k}"))
                        .spawn(move || {
                            let give_up = |f: &AtomicBool| f.load(Ordering::SeqCst) || t_start.elapsed() > Duration::from_millis(1500);
                            match tr {
                                Trig::Delay(us) => std::thread::sleep(Duration::from_micros(us)),
                                Trig::InWait(us) => {
                                    while sh2.stage[k].load(Ordering::SeqCst) == 0 && !give_up(&f) {
                                        std::thread::yield_now();
                                    }
                                    if us > 0 {
                                        std::thread::sleep(Duration::from_micros(us));
                                    }
                                }
                                Trig::OnNotify(n, us) => {
                                    while sh2.notify_stage.load(Ordering::SeqCst) < n && !give_up(&f) {
                                        std::thread::yield_now();
                                    }
                                    if us > 0 {
                                        std::thread::sleep(Duration::from_micros(us));
                                    }
                                }
                            }
                            unsafe { co.cancel() };
                        })
                        .unwrap(),
                );
            }
            let mut fails = vec![];
            // a consumer that sleeps for ever blocks its join: the harness watchdog (no event for hang_ms) reports it
            for (k, h) in hs.into_iter().enumerate() {
                match classify(h.join()) {
                    Ok(true) => {}
                    Ok(false) => {
                        if k >= nvict {
                            fails.push(format!("cancel: coroutine c{k} was never cancelled but ended with a Cancel panic"));
                        }
                    }
                    Err(msg) => fails.push(format!("panic: coroutine c{k} panicked: {msg}")),
                }
            }
            for t in ts {
                if t.join().is_err() {
                    fails.push("panic: a thread actor panicked".to_string());
                }
            }
            for c in cs {
                let _ = c.join();
            }
            if sh.m.is_poisoned() {
                fails.push("poison: the mutex is poisoned after a cancellation".to_string());
            }
            let sh2 = sh.clone();
            let left = Arc::new(AtomicUsize::new(usize::MAX));
            let left2 = left.clone();
            let probe = spawn_actor_thread(&format!("t{na}"), move || {
                let g = sh2.lock();
                left2.store(*g, Ordering::SeqCst);
                sh2.unlock(g);
            });
            if probe.join().is_err() {
                fails.push("panic: the final probe panicked".to_string());
            }
            let ld = |a: &AtomicUsize| a.load(Ordering::SeqCst);
            if ld(&sh.max_occ) > 1 {
                fails.push(format!("mutex not held exclusively on return from lock / wait: {} holders at once", ld(&sh.max_occ)));
            }
            if ld(&sh.occ) != 0 {
                fails.push("occupancy: counter not back to 0".to_string());
            }
            if ld(&sh.bad_pred) > 0 {
                fails.push("wait_while returned while its condition still held".to_string());
            }
            if ld(&sh.produced) != ld(&sh.consumed) + ld(&left) {
                fails.push(format!("permits: produced {} != consumed {} + left {}", ld(&sh.produced), ld(&sh.consumed), ld(&left)));
            }
            if ld(&left) != 0 {
                fails.push(format!("permits: {} left although every consumer finished", ld(&left)));
            }
            fails.extend(sh.fails.lock().unwrap_or_else(|e| e.into_inner()).drain(..));
            fails
        }),
    }
}
