pub mod canon;
pub mod rt;
pub mod scn;
pub mod valloc;
