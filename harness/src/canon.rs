//! canonicalisation of a raw event log into trace lines
//!
//! `actor kind obj op a1 a2 res flag ord`  (9 space separated tokens)
//!
//! * objects are named from the *current source*: the construction site `file:line` recorded by
//!   the hook is looked up in /repo and the field / variable initialised on that line gives the
//!   name (`sync.mutex.cnt`); instances are numbered in order of first appearance (`@0`), or carry
//!   the token of the heap object they live in (`@SyncBlocker3`, from `born` notes).
//! * pointer-valued operands of queue / option operations that point at such a heap object are
//!   replaced by its token; `u64::MAX` (none) prints as -1; everything else as a signed integer.
use crate::rt::Raw;
use std::collections::HashMap;

pub struct Canon {
    src: HashMap<String, (String, Vec<String>)>, // file -> (module name, lines)
    site_names: HashMap<(String, u32), String>,
    inst: HashMap<(String, usize), String>,
    per_name: HashMap<String, usize>,
    born: Vec<(usize, usize, String)>,
    /// per-slot hooked atomics inside a born object: token -> (first offset, stride, count)
    arrays: HashMap<String, (usize, usize, usize)>,
    freed: Vec<(usize, usize, String)>,
    born_cnt: HashMap<String, usize>,
    pub unresolved_sites: Vec<String>,
    co_ids: HashMap<String, String>,
    ktails: HashMap<String, (String, usize)>,
    kcount: HashMap<String, usize>,
}

fn ident_before_colon(l: &str) -> Option<String> {
    // `name: Type::new(..)`  |  `name: 0.into(),`
    let t = l.trim_start();
    let t = t.strip_prefix("pub ").unwrap_or(t);
    let id: String = t.chars().take_while(|c| c.is_alphanumeric() || *c == '_').collect();
    if !id.is_empty() && t[id.len()..].trim_start().starts_with(':') && !t[id.len()..].trim_start().starts_with("::") {
        return Some(id);
    }
    None
}

fn field_name(line: &str) -> Option<String> {
    let t = line.trim();
    if let Some(rest) = t.strip_prefix("let ") {
        let rest = rest.strip_prefix("mut ").unwrap_or(rest);
        let id: String = rest.chars().take_while(|c| c.is_alphanumeric() || *c == '_').collect();
        if !id.is_empty() {
            return Some(id);
        }
    }
    for pre in ["static ", "pub static ", "const ", "pub const "] {
        if let Some(rest) = t.strip_prefix(pre) {
            let id: String = rest.chars().take_while(|c| c.is_alphanumeric() || *c == '_').collect();
            if !id.is_empty() {
                return Some(id);
            }
        }
    }
    if let Some(id) = ident_before_colon(t) {
        return Some(id);
    }
    // tuple struct: `AtomicDuration(AtomicUsize::new(dur))`
    if let Some(p) = t.find('(') {
        let id: String = t[..p].chars().filter(|c| c.is_alphanumeric() || *c == '_').collect();
        if !id.is_empty() && t[..p].chars().all(|c| c.is_alphanumeric() || c == '_') {
            return Some(format!("{id}.0"));
        }
    }
    None
}

impl Canon {
    pub fn new() -> Self {
        Canon {
            src: HashMap::new(),
            site_names: HashMap::new(),
            inst: HashMap::new(),
            per_name: HashMap::new(),
            born: vec![],
            arrays: HashMap::new(),
            freed: vec![],
            born_cnt: HashMap::new(),
            unresolved_sites: vec![],
            co_ids: HashMap::new(),
            ktails: HashMap::new(),
            kcount: HashMap::new(),
        }
    }

    /// canonical actor name: coroutines `c:<name>` (or `c#<k>` when unnamed, numbered by first appearance),
    /// their kernel tails `k:<co>#<n>` (n-th kernel tail of that coroutine in this trace), threads as they are
    pub fn actor(&mut self, raw: &str) -> String {
        if !raw.contains('|') {
            return raw.to_string();
        }
        let (is_k, rest) = match raw.strip_prefix("k:") {
            Some(r) => (true, r),
            None => (false, raw),
        };
        let (core, seq) = match rest.rsplit_once('#') {
            Some((c, q)) if is_k => (c, q),
            _ => (rest, ""),
        };
        let n = self.co_ids.len();
        let co = self
            .co_ids
            .entry(core.to_string())
            .or_insert_with(|| {
                let name = core.split('|').next().unwrap_or("?");
                if name == "?" { format!("c#{n}") } else { format!("c:{name}") }
            })
            .clone();
        if !is_k {
            return co;
        }
        if let Some((c, i)) = self.ktails.get(raw) {
            return format!("k:{c}#{i}");
        }
        let _ = seq;
        let cnt = self.kcount.entry(co.clone()).or_insert(0);
        *cnt += 1;
        let i = *cnt;
        self.ktails.insert(raw.to_string(), (co.clone(), i));
        format!("k:{co}#{i}")
    }

    fn load(&mut self, file: &str) -> &(String, Vec<String>) {
        if !self.src.contains_key(file) {
            let repo = std::env::var("VERIF_REPO").unwrap_or_else(|_| "/repo".into());
            let mut cands = vec![];
            if file.starts_with('/') {
                cands.push((file.to_string(), file.contains("/may_queue/")));
            } else {
                cands.push((format!("{repo}/{file}"), false));
                cands.push((format!("{repo}/may_queue/{file}"), true));
            }
            let mut found = (String::from("?"), vec![]);
            for (p, mq) in cands {
                if let Ok(s) = std::fs::read_to_string(&p) {
                    let rel = match p.rfind("/src/") {
                        Some(i) => &p[i + 5..],
                        None => &p[..],
                    };
                    let m = rel.trim_end_matches(".rs").replace('/', ".");
                    let m = if mq { format!("mq.{m}") } else { m };
                    found = (m, s.lines().map(|l| l.to_string()).collect());
                    break;
                }
            }
            self.src.insert(file.to_string(), found);
        }
        &self.src[file]
    }

    fn site_name(&mut self, file: &str, line: u32) -> String {
        let key = (file.to_string(), line);
        if let Some(n) = self.site_names.get(&key) {
            return n.clone();
        }
        let (m, lines) = self.load(file).clone();
        // the constructor call may be on a continuation line: look upwards a little
        let mut name = None;
        for back in 0..3u32 {
            if line > back {
                if let Some(l) = lines.get((line - back - 1) as usize) {
                    if let Some(f) = field_name(l) {
                        name = Some(f);
                        break;
                    }
                }
            }
        }
        let n = match name {
            Some(f) => format!("{m}.{f}"),
            None => {
                self.unresolved_sites.push(format!("{file}:{line}"));
                format!("{m}.L{line}")
            }
        };
        self.site_names.insert(key, n.clone());
        n
    }

    fn born_of(&self, addr: usize) -> Option<&(usize, usize, String)> {
        self.born.iter().rev().find(|(lo, hi, _)| addr >= *lo && addr < *hi)
    }

    fn obj(&mut self, name: &str, addr: usize) -> String {
        if let Some((lo, _, tok)) = self.born_of(addr) {
            if let Some((first, stride, count)) = self.arrays.get(tok) {
                let off = addr - lo;
                if *stride > 0 && off >= *first && (off - first) % stride == 0 && (off - first) / stride < *count {
                    return format!("{name}@{tok}[{}]", (off - first) / stride);
                }
            }
            return format!("{name}@{tok}");
        }
        let key = (name.to_string(), addr);
        if let Some(i) = self.inst.get(&key) {
            return format!("{name}@{i}");
        }
        let c = self.per_name.entry(name.to_string()).or_insert(0);
        let i = format!("{}", *c);
        *c += 1;
        self.inst.insert(key, i.clone());
        format!("{name}@{i}")
    }

    /// a value of a may_queue atomic: block pointers, possibly packed with an index in the low bits and a
    /// flag in bit 63, print as `Tok`, `Tok+off`, `Tok+off!`; pointers into freed blocks as `Freed_Tok…`
    fn mqval(&self, v: u64) -> String {
        if v == u64::MAX {
            return "-1".into();
        }
        let c = (v & !(1u64 << 63)) as usize;
        let bang = if v >> 63 == 1 { "!" } else { "" };
        if c > 4096 {
            if let Some((lo, _, tok)) = self.born_of(c) {
                return if c == *lo && bang.is_empty() { tok.clone() } else { format!("{tok}+{}{bang}", c - lo) };
            }
            if let Some((lo, _, tok)) = self.freed.iter().rev().find(|(lo, hi, _)| c >= *lo && c < *hi) {
                return format!("Freed_{tok}+{}{bang}", c - lo);
            }
        }
        format!("{}", v as i64)
    }

    fn val(&self, v: u64, ptr_ok: bool) -> String {
        if v == u64::MAX {
            return "-1".into();
        }
        if ptr_ok && v > 4096 {
            // an `Arc<T>` item is identified by its `ArcInner` pointer, 16 bytes before the data
            for cand in [v as usize, v as usize + 16] {
                if let Some((lo, _, tok)) = self.born_of(cand) {
                    if *lo == cand {
                        return tok.clone();
                    }
                }
            }
        }
        format!("{}", v as i64)
    }

    pub fn line(&mut self, r0: &Raw) -> Option<String> {
        let mut rr = r0.clone();
        rr.actor = self.actor(&r0.actor);
        let r = &rr;
        const ORD: [&str; 6] = ["-", "Relaxed", "Release", "Acquire", "AcqRel", "SeqCst"];
        match r.kind {
            "note" => {
                let mut it = r.op.split_whitespace();
                let k = it.next().unwrap_or("");
                if k == "born" {
                    let kind = it.next().unwrap_or("?").to_string();
                    let p: usize = it.next().and_then(|s| s.parse().ok()).unwrap_or(0);
                    let sz: usize = it.next().and_then(|s| s.parse().ok()).unwrap_or(0);
                    let first: usize = it.next().and_then(|s| s.parse().ok()).unwrap_or(0);
                    let stride: usize = it.next().and_then(|s| s.parse().ok()).unwrap_or(0);
                    let count: usize = it.next().and_then(|s| s.parse().ok()).unwrap_or(0);
                    let c = self.born_cnt.entry(kind.clone()).or_insert(0);
                    let tok = format!("{kind}{}", *c);
                    *c += 1;
                    // a new generation: forget everything that overlapped this range
                    self.born.retain(|(lo, hi, _)| *hi <= p || *lo >= p + sz);
                    self.inst.retain(|(_, a), _| *a < p || *a >= p + sz);
                    self.freed.retain(|(lo, hi, _)| *hi <= p || *lo >= p + sz);
                    self.born.push((p, p + sz, tok.clone()));
                    if stride > 0 {
                        self.arrays.insert(tok.clone(), (first, stride, count));
                    }
                    return Some(format!("{} note - born {} 0 0 2 -", r.actor, tok));
                }
                if k == "free" {
                    let _kind = it.next();
                    let p: usize = it.next().and_then(|s| s.parse().ok()).unwrap_or(0);
                    let mut tok = format!("{}", p);
                    if let Some(i) = self.born.iter().position(|(lo, _, _)| *lo == p) {
                        let e = self.born.remove(i);
                        tok = e.2.clone();
                        self.inst.retain(|(_, a), _| *a < e.0 || *a >= e.1);
                        self.freed.push(e);
                    }
                    return Some(format!("{} note - free {} 0 0 2 -", r.actor, tok));
                }
                let rest: Vec<&str> = r.op.split_whitespace().collect();
                let what = rest.get(1).copied().unwrap_or("0");
                let what = if what.contains('|') { self.actor(what) } else { what.to_string() };
                Some(format!(
                    "{} note - {} {} 0 0 2 -",
                    r.actor,
                    rest.first().unwrap_or(&"?"),
                    what
                ))
            }
            "call" | "ret" => Some(format!(
                "{} {} - {} {} {} 0 2 -",
                r.actor, r.kind, r.op, r.arg as i64, r.arg2 as i64
            )),
            "blk" => {
                let o = self.obj("tp", r.addr);
                Some(format!(
                    "{} blk {} {} {} 0 {} 2 -",
                    r.actor, o, r.op, r.arg as i64, r.res as i64
                ))
            }
            _ => {
                let name = self.site_name(r.file, r.line);
                let o = self.obj(&name, r.addr);
                let ptr_arg = matches!(r.op.as_str(), "q.push" | "opt.store");
                let ptr_res = matches!(r.op.as_str(), "q.pop" | "opt.take" | "q.peek");
                if name.starts_with("mq.") {
                    return Some(format!(
                        "{} a {} {} {} {} {} {} {}",
                        r.actor,
                        o,
                        r.op,
                        self.mqval(r.arg),
                        self.mqval(r.arg2),
                        self.mqval(r.res),
                        r.flag,
                        ORD[(r.ord as usize).min(5)]
                    ));
                }
                Some(format!(
                    "{} a {} {} {} {} {} {} {}",
                    r.actor,
                    o,
                    r.op,
                    self.val(r.arg, ptr_arg),
                    r.arg2 as i64,
                    self.val(r.res, ptr_res),
                    r.flag,
                    ORD[(r.ord as usize).min(5)]
                ))
            }
        }
    }

    pub fn lines(&mut self, log: &[Raw]) -> Vec<String> {
        log.iter().filter_map(|r| self.line(r)).collect()
    }
}
