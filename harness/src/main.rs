//! vh det <family> <seed0> <count> <out-file> [tier]
//!   runs `count` seeded scenarios of a det-mode family under full serialisation, writes the
//!   canonical traces to <out-file> and prints a one-line JSON summary (oracle results) to stdout.
use std::io::Write;
use vh::canon::Canon;
use vh::rt::{self, Rng, Sched};
use vh::scn;

fn jstr(s: &str) -> String {
    let mut o = String::from("\"");
    for c in s.chars() {
        match c {
            '"' => o.push_str("\\\""),
            '\\' => o.push_str("\\\\"),
            '\n' => o.push_str("\\n"),
            c if (c as u32) < 32 => o.push(' '),
            c => o.push(c),
        }
    }
    o.push('"');
    o
}

fn main() {
    let a: Vec<String> = std::env::args().collect();
    if a.len() >= 6 && a[1] == "detx" {
        detx_main(&a);
        return;
    }
    if a.len() < 6 || (a[1] != "det" && a[1] != "live") {
        eprintln!("usage: vh det|live <family> <seed0> <count> <out-file> [tier]");
        std::process::exit(2);
    }
    if a[1] == "live" {
        live_main(&a);
        return;
    }
    let family = a[2].as_str();
    let seed0: u64 = a[3].parse().unwrap();
    let count: u64 = a[4].parse().unwrap();
    let tier: u32 = a.get(6).and_then(|s| s.parse().ok()).unwrap_or(0);
    let mut out = std::io::BufWriter::new(std::fs::File::create(&a[5]).unwrap());
    rt::install();
    // quiet the default panic message of actor threads (panics are caught and reported)
    std::panic::set_hook(Box::new(|_| {}));
    let mut failures = vec![];
    let mut steps = 0usize;
    let mut events = 0usize;
    let mut unresolved = std::collections::BTreeSet::new();
    let t0 = std::time::Instant::now();
    for seed in seed0..seed0 + count {
        let mut rng = Rng::new(seed);
        let Some(b) = scn::build_det(family, &mut rng, tier) else {
            eprintln!("unknown family {family}");
            std::process::exit(2);
        };
        rt::set_filter(&b.filter);
        let sticky = [0u64, 500, 900][rng.below(3) as usize];
        let mut srng = Rng::new(seed ^ 0xABCDEF);
        let mut sched = Sched::Random { rng: &mut srng, sticky, timeout_permille: b.timeout_permille };
        let r = rt::run_det(&b.names, b.actors, &mut sched, 200_000);
        steps += r.steps;
        let mut c = Canon::new();
        let lines = c.lines(&r.log);
        for u in c.unresolved_sites { unresolved.insert(u); }
        events += lines.len();
        let mut fails = (b.check)(&r);
        if let Some(d) = &r.deadlock { fails.push(format!("deadlock: no enabled actor, states {d}")); }
        if r.budget_exceeded { fails.push("step budget exceeded (livelock?)".into()); }
        for p in &r.panics { fails.push(format!("panic: {p}")); }
        let status = if fails.is_empty() { "ok" } else { "oracle-fail" };
        writeln!(out, "#scenario seed={} {}", seed, b.header).unwrap();
        for l in &lines { writeln!(out, "{l}").unwrap(); }
        writeln!(out, "#end {status}").unwrap();
        for f in fails { failures.push((seed, f)); }
    }
    out.flush().unwrap();
    let fl: Vec<String> = failures.iter().map(|(s, f)| format!("{{\"seed\":{},\"what\":{}}}", s, jstr(f))).collect();
    let ur: Vec<String> = unresolved.iter().map(|s| jstr(s)).collect();
    println!(
        "{{\"family\":{},\"runs\":{},\"steps\":{},\"events\":{},\"wall_s\":{:.3},\"oracle_failures\":[{}],\"unresolved_sites\":[{}]}}",
        jstr(family), count, steps, events, t0.elapsed().as_secs_f64(), fl.join(","), ur.join(",")
    );
    std::process::exit(if failures.is_empty() { 0 } else { 1 });
}

/// vh live <family> <seed0> <count> <out-file> [tier]
///   runs seeded scenarios on the real runtime (one process; the scheduler is a process-global singleton) with
///   logging hooks and seeded perturbation; a watchdog turns "no event for hang_ms while unfinished" into a hang
///   report (trace dumped, process ends).
fn live_main(a: &[String]) {
    use std::sync::atomic::Ordering;
    let family = a[2].as_str();
    let seed0: u64 = a[3].parse().unwrap();
    let count: u64 = a[4].parse().unwrap();
    let tier: u32 = a.get(6).and_then(|s| s.parse().ok()).unwrap_or(0);
    let mut out = std::io::BufWriter::new(std::fs::File::create(&a[5]).unwrap());
    let workers = std::env::var("VH_WORKERS").ok().and_then(|s| s.parse().ok()).unwrap_or(1 + (seed0 % 3) as usize);
    may::config().set_workers(workers);
    rt::install();
    let mut failures: Vec<(u64, String)> = vec![];
    let mut events = 0usize;
    let mut runs = 0u64;
    let mut unresolved = std::collections::BTreeSet::new();
    let t0 = std::time::Instant::now();
    let mut hung = false;
    for seed in seed0..seed0 + count {
        let mut rng = Rng::new(seed);
        let Some(b) = scn::build_live(family, &mut rng, tier) else {
            eprintln!("unknown live family {family}");
            std::process::exit(2);
        };
        rt::set_filter(&b.filter);
        let perturb = [0u64, 100, 300, 600][rng.below(4) as usize];
        rt::live_setup(seed, perturb);
        let run = b.run;
        let h = std::thread::Builder::new()
            .name("main".into())
            .spawn(move || {
                may::verif::push_actor("main".into());
                let r = std::panic::catch_unwind(std::panic::AssertUnwindSafe(run));
                may::verif::pop_actor();
                match r {
                    Ok(f) => f,
                    Err(e) => {
                        let msg = e.downcast_ref::<String>().cloned().or_else(|| e.downcast_ref::<&str>().map(|s| s.to_string())).unwrap_or_else(|| "(non-string payload)".into());
                        vec![format!("scenario main panicked: {}", msg.chars().take(300).collect::<String>())]
                    }
                }
            })
            .unwrap();
        let mut last = usize::MAX;
        // idle time is counted in watchdog ticks, not in wall-clock time: an iteration that took much longer than its 2 ms
        // sleep means that this thread - hence the whole process or machine - was stalled (VM hiccups of seconds were
        // observed in this sandbox); such a gap counts as 20 ms at most, so a machine-wide stall is not taken for a hang
        let mut idle_us: u64 = 0;
        let mut tick = std::time::Instant::now();
        let mut fails = vec![];
        loop {
            if h.is_finished() {
                fails = h.join().unwrap_or_else(|_| vec!["scenario thread died".into()]);
                break;
            }
            let dt = tick.elapsed().as_micros() as u64;
            tick = std::time::Instant::now();
            let n = rt::LIVE_EVENTS.load(Ordering::Relaxed);
            if n != last {
                last = n;
                idle_us = 0;
            } else {
                idle_us += dt.min(20_000);
            }
            if idle_us / 1000 > b.hang_ms {
                hung = true;
                fails.push(format!("hang: no hooked event for {} ms while the scenario is unfinished", b.hang_ms));
                break;
            }
            std::thread::sleep(std::time::Duration::from_millis(2));
        }
        runs += 1;
        std::thread::sleep(std::time::Duration::from_millis(3)); // let kernel tails of finished coroutines drain
        rt::live_stop();
        let log = if hung { rt::live_snapshot() } else { rt::live_take() };
        let mut c = Canon::new();
        let lines = c.lines(&log);
        for u in c.unresolved_sites { unresolved.insert(u); }
        events += lines.len();
        let status = if hung { "hang" } else if fails.is_empty() { "ok" } else { "oracle-fail" };
        writeln!(out, "#scenario seed={} {} workers={} perturb={}", seed, b.header, workers, perturb).unwrap();
        for l in &lines { writeln!(out, "{l}").unwrap(); }
        writeln!(out, "#end {status}").unwrap();
        for f in fails { failures.push((seed, f)); }
        if hung { break; }
    }
    out.flush().unwrap();
    let fl: Vec<String> = failures.iter().map(|(s, f)| format!("{{\"seed\":{},\"what\":{}}}", s, jstr(f))).collect();
    let ur: Vec<String> = unresolved.iter().map(|s| jstr(s)).collect();
    println!(
        "{{\"family\":{},\"runs\":{},\"steps\":0,\"events\":{},\"wall_s\":{:.3},\"workers\":{},\"oracle_failures\":[{}],\"unresolved_sites\":[{}]}}",
        jstr(family), runs, events, t0.elapsed().as_secs_f64(), workers, fl.join(","), ur.join(",")
    );
    std::process::exit(if failures.is_empty() { 0 } else { 1 });
}

/// vh detx <family> <seed0> <count> <out-file> [tier] : SYSTEMATIC exploration. For each of `count` seeded scenarios
/// (structure from the seed, as in `det`) every schedule with at most VH_PREEMPT (default 2) preemptions is executed
/// on the real code (iterative context bounding: a switch away from an enabled actor, or firing a time-out while a
/// normal step is enabled, costs one), up to VH_MAXRUNS (default 3000) runs per scenario. Same output as `det`;
/// every run is a scenario in the trace file, `sched=` in its header replays it.
fn detx_main(a: &[String]) {
    let family = a[2].as_str();
    let seed0: u64 = a[3].parse().unwrap();
    let count: u64 = a[4].parse().unwrap();
    let tier: u32 = a.get(6).and_then(|s| s.parse().ok()).unwrap_or(0);
    let bound: usize = std::env::var("VH_PREEMPT").ok().and_then(|s| s.parse().ok()).unwrap_or(2);
    let max_runs: usize = std::env::var("VH_MAXRUNS").ok().and_then(|s| s.parse().ok()).unwrap_or(3000);
    let mut out = std::io::BufWriter::new(std::fs::File::create(&a[5]).unwrap());
    rt::install();
    std::panic::set_hook(Box::new(|_| {}));
    let mut failures = vec![];
    let (mut steps, mut events, mut runs, mut exhausted) = (0usize, 0usize, 0u64, 0u64);
    let mut unresolved = std::collections::BTreeSet::new();
    let t0 = std::time::Instant::now();
    for seed in seed0..seed0 + count {
        // work list of prefixes with their preemption count
        let mut work: Vec<(Vec<(usize, bool)>, usize)> = vec![(vec![], 0)];
        let mut done = 0usize;
        while let Some((prefix, pre)) = work.pop() {
            if done >= max_runs { break; }
            let mut rng = Rng::new(seed);
            let Some(b) = scn::build_det(family, &mut rng, tier) else {
                eprintln!("unknown family {family}");
                std::process::exit(2);
            };
            rt::set_filter(&b.filter);
            let allow_timeouts = b.timeout_permille > 0;
            let mut sched = Sched::Prefix(&prefix, 0);
            let r = rt::run_det(&b.names, b.actors, &mut sched, 20_000);
            done += 1;
            runs += 1;
            steps += r.steps;
            // children: deviate at every decision at or after the end of the prefix
            for (i, d) in r.decisions.iter().enumerate().skip(prefix.len()) {
                let running_enabled = d.last.map(|l| d.enabled.contains(&l)).unwrap_or(false);
                let base: Vec<(usize, bool)> = r.decisions[..i].iter().map(|x| x.chosen).collect();
                for &alt in &d.enabled {
                    if (alt, false) == d.chosen { continue; }
                    let cost = if running_enabled && d.last != Some(alt) { 1 } else { 0 };
                    if pre + cost <= bound {
                        let mut p = base.clone();
                        p.push((alt, false));
                        work.push((p, pre + cost));
                    }
                }
                if allow_timeouts {
                    for &alt in &d.timeouts {
                        if (alt, true) == d.chosen { continue; }
                        let cost = if d.enabled.is_empty() { 0 } else { 1 };
                        if pre + cost <= bound {
                            let mut p = base.clone();
                            p.push((alt, true));
                            work.push((p, pre + cost));
                        }
                    }
                }
            }
            let mut c = Canon::new();
            let lines = c.lines(&r.log);
            for u in c.unresolved_sites { unresolved.insert(u); }
            events += lines.len();
            let mut fails = (b.check)(&r);
            if let Some(d) = &r.deadlock { fails.push(format!("deadlock: no enabled actor, states {d}")); }
            if r.budget_exceeded { fails.push("step budget exceeded (livelock?)".into()); }
            for p in &r.panics { fails.push(format!("panic: {p}")); }
            let status = if fails.is_empty() { "ok" } else { "oracle-fail" };
            let ps: Vec<String> = prefix.iter().map(|(t, to)| format!("{}{}", t, if *to { "!" } else { "" })).collect();
            writeln!(out, "#scenario seed={} {} sched={}", seed, b.header, if ps.is_empty() { "-".to_string() } else { ps.join(".") }).unwrap();
            for l in &lines { writeln!(out, "{l}").unwrap(); }
            writeln!(out, "#end {status}").unwrap();
            for f in fails { failures.push((seed, f)); }
        }
        if work.is_empty() { exhausted += 1; }
    }
    out.flush().unwrap();
    let fl: Vec<String> = failures.iter().take(50).map(|(s, f)| format!("{{\"seed\":{},\"what\":{}}}", s, jstr(f))).collect();
    let ur: Vec<String> = unresolved.iter().map(|s| jstr(s)).collect();
    println!(
        "{{\"family\":{},\"runs\":{},\"steps\":{},\"events\":{},\"wall_s\":{:.3},\"scenarios\":{},\"exhausted_within_bound\":{},\"preemption_bound\":{},\"oracle_failures\":[{}],\"unresolved_sites\":[{}]}}",
        jstr(family), runs, steps, events, t0.elapsed().as_secs_f64(), count, exhausted, bound, fl.join(","), ur.join(",")
    );
    std::process::exit(if failures.is_empty() { 0 } else { 1 });
}
