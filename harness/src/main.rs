//! vh det <family> <seed0> <count> <out-file> [tier]
//!   runs `count` seeded scenarios of a det-mode family under full serialisation, writes the
//!   canonical traces to <out-file> and prints a one-line JSON summary (oracle results) to stdout.
use std::io::Write;
use vh::canon::Canon;
use vh::rt::{self, Rng, Sched};
use vh::scn;

fn jstr(s: &str) -> String {
    let mut o = String::from("\"");
    for c in s.chars() {
        match c {
            '"' => o.push_str("\\\""),
            '\\' => o.push_str("\\\\"),
            '\n' => o.push_str("\\n"),
            c if (c as u32) < 32 => o.push(' '),
            c => o.push(c),
        }
    }
    o.push('"');
    o
}

fn main() {
    let a: Vec<String> = std::env::args().collect();
    if a.len() < 6 || a[1] != "det" {
        eprintln!("usage: vh det <family> <seed0> <count> <out-file> [tier]");
        std::process::exit(2);
    }
    let family = a[2].as_str();
    let seed0: u64 = a[3].parse().unwrap();
    let count: u64 = a[4].parse().unwrap();
    let tier: u32 = a.get(6).and_then(|s| s.parse().ok()).unwrap_or(0);
    let mut out = std::io::BufWriter::new(std::fs::File::create(&a[5]).unwrap());
    rt::install();
    // quiet the default panic message of actor threads (panics are caught and reported)
    std::panic::set_hook(Box::new(|_| {}));
    let mut failures = vec![];
    let mut steps = 0usize;
    let mut events = 0usize;
    let mut unresolved = std::collections::BTreeSet::new();
    let t0 = std::time::Instant::now();
    for seed in seed0..seed0 + count {
        let mut rng = Rng::new(seed);
        let Some(b) = scn::build_det(family, &mut rng, tier) else {
            eprintln!("unknown family {family}");
            std::process::exit(2);
        };
        rt::set_filter(&b.filter);
        let sticky = [0u64, 500, 900][rng.below(3) as usize];
        let mut srng = Rng::new(seed ^ 0xABCDEF);
        let mut sched = Sched::Random { rng: &mut srng, sticky, timeout_permille: b.timeout_permille };
        let r = rt::run_det(&b.names, b.actors, &mut sched, 200_000);
        steps += r.steps;
        let mut c = Canon::new();
        let lines = c.lines(&r.log);
        for u in c.unresolved_sites { unresolved.insert(u); }
        events += lines.len();
        let mut fails = (b.check)(&r);
        if let Some(d) = &r.deadlock { fails.push(format!("deadlock: no enabled actor, states {d}")); }
        if r.budget_exceeded { fails.push("step budget exceeded (livelock?)".into()); }
        for p in &r.panics { fails.push(format!("panic: {p}")); }
        let status = if fails.is_empty() { "ok" } else { "oracle-fail" };
        writeln!(out, "#scenario seed={} {}", seed, b.header).unwrap();
        for l in &lines { writeln!(out, "{l}").unwrap(); }
        writeln!(out, "#end {status}").unwrap();
        for f in fails { failures.push((seed, f)); }
    }
    out.flush().unwrap();
    let fl: Vec<String> = failures.iter().map(|(s, f)| format!("{{\"seed\":{},\"what\":{}}}", s, jstr(f))).collect();
    let ur: Vec<String> = unresolved.iter().map(|s| jstr(s)).collect();
    println!(
        "{{\"family\":{},\"runs\":{},\"steps\":{},\"events\":{},\"wall_s\":{:.3},\"oracle_failures\":[{}],\"unresolved_sites\":[{}]}}",
        jstr(family), count, steps, events, t0.elapsed().as_secs_f64(), fl.join(","), ur.join(",")
    );
    std::process::exit(if failures.is_empty() { 0 } else { 1 });
}
