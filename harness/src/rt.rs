//! run-time of the harness: implementation of the `cfg(may_verif)` hooks.
//!
//! Two modes, one trace format.
//! * det : every registered actor thread stops at every hooked operation and hands the
//!   baton to the controller, which picks who runs next (seeded). `ThreadPark` is
//!   virtual, time-outs are schedule choices that advance a virtual clock.
//! * live: the real runtime runs; a hooked operation and its log entry are performed
//!   under one global spin lock, so the log order is a linearization of the hooked
//!   operations. A seeded perturbation widens the racing windows.
use may::verif::{Ev, Hooks};
use std::cell::Cell;
use std::collections::HashMap;
use std::sync::atomic::{AtomicBool, AtomicPtr, AtomicU64, AtomicU8, AtomicUsize, Ordering};
use std::sync::{Condvar, Mutex as StdMutex};
use std::time::Duration;

#[derive(Clone, Debug)]
pub struct Raw {
    pub actor: String,
    pub kind: &'static str, // a | call | ret | blk | note
    pub file: &'static str,
    pub line: u32,
    pub addr: usize,
    pub op: String,
    pub arg: u64,
    pub arg2: u64,
    pub res: u64,
    pub flag: u8,
    pub ord: u8,
}

#[derive(Clone, Copy, PartialEq, Debug)]
pub enum St {
    NotStarted,
    Running,
    AtPoint,
    Parked(usize, Option<u64>), // address, timeout in ns
    Finished,
}

pub const MODE_OFF: u8 = 0;
pub const MODE_DET: u8 = 1;
pub const MODE_LIVE: u8 = 2;
static MODE: AtomicU8 = AtomicU8::new(MODE_OFF);

struct G {
    st: Vec<St>,
    names: Vec<String>,
    turn: Option<usize>,
    tokens: HashMap<usize, bool>,
    park_result: Vec<bool>,
    vclock: u64,
    log: Vec<Raw>,
    panics: Vec<String>,
    dead: bool,
    gen: u64,
}
static GEN: AtomicU64 = AtomicU64::new(1);
thread_local! { static MYGEN: Cell<u64> = const { Cell::new(0) }; }

static G: StdMutex<Option<G>> = StdMutex::new(None);
static CV: Condvar = Condvar::new();
thread_local! { static ME: Cell<usize> = const { Cell::new(usize::MAX) }; }
// depth of lock-protected regions of the code under test this thread is in (`cs enter/leave` notes): the det
// controller must not de-schedule a thread that holds a real lock (the next taker would block in the OS)
thread_local! { static NOYIELD: Cell<u32> = const { Cell::new(0) }; }

// file filter: only events whose construction site is in one of these files are kept
static FILTER: AtomicPtr<Vec<String>> = AtomicPtr::new(std::ptr::null_mut());
pub fn set_filter(files: &[&str]) {
    let v: Vec<String> = files.iter().map(|s| s.to_string()).collect();
    FILTER.store(Box::into_raw(Box::new(v)), Ordering::SeqCst); // leaked on purpose (tiny)
}
#[inline]
fn keep(file: &str) -> bool {
    let p = FILTER.load(Ordering::Acquire);
    if p.is_null() {
        return true;
    }
    let v = unsafe { &*p };
    v.iter().any(|f| file.ends_with(f.as_str()))
}

fn with<R>(f: impl FnOnce(&mut G) -> R) -> R {
    let mut g = G.lock().unwrap_or_else(|e| e.into_inner());
    match g.as_mut() {
        Some(c) if c.gen == MYGEN.get() => f(c),
        _ => {
            drop(g);
            loop {
                std::thread::park();
            }
        }
    }
}

// ---------------------------------------------------------------- live mode

static LOGLOCK: AtomicBool = AtomicBool::new(false);
static LIVE_LOG: StdMutex<Vec<Raw>> = StdMutex::new(Vec::new());
static SEED: AtomicU64 = AtomicU64::new(1);
static PERTURB: AtomicU64 = AtomicU64::new(0); // per-mille of hooked operations that are delayed
pub static LIVE_EVENTS: AtomicUsize = AtomicUsize::new(0);
thread_local! { static RNG: Cell<u64> = const { Cell::new(0) }; static DEPTH: Cell<u32> = const { Cell::new(0) }; }

fn trnd() -> u64 {
    RNG.with(|r| {
        let mut x = r.get();
        if x == 0 {
            x = SEED.fetch_add(0x9E3779B97F4A7C15, Ordering::Relaxed) | 1;
        }
        x ^= x << 13;
        x ^= x >> 7;
        x ^= x << 17;
        r.set(x);
        x
    })
}
fn loglock() {
    while LOGLOCK
        .compare_exchange_weak(false, true, Ordering::Acquire, Ordering::Relaxed)
        .is_err()
    {
        std::hint::spin_loop();
    }
}
fn logunlock() {
    LOGLOCK.store(false, Ordering::Release);
}
fn live_actor() -> String {
    may::verif::current_actor().unwrap_or_else(|| {
        format!("thr:{}", std::thread::current().name().unwrap_or("?"))
    })
}
pub fn live_setup(seed: u64, perturb_permille: u64) {
    SEED.store(seed.wrapping_mul(0x2545F4914F6CDD1D) | 1, Ordering::Relaxed);
    PERTURB.store(perturb_permille, Ordering::Relaxed);
    LIVE_LOG.lock().unwrap_or_else(|e| e.into_inner()).clear();
    MODE.store(MODE_LIVE, Ordering::SeqCst);
}
pub fn live_take() -> Vec<Raw> {
    std::mem::take(&mut *LIVE_LOG.lock().unwrap_or_else(|e| e.into_inner()))
}
pub fn live_snapshot() -> Vec<Raw> {
    LIVE_LOG.lock().unwrap_or_else(|e| e.into_inner()).clone()
}
pub fn live_stop() {
    MODE.store(MODE_OFF, Ordering::SeqCst);
}

// ---------------------------------------------------------------- hooks

/// give the baton back and wait for the turn
fn yield_point(me: usize, st: St) {
    let mut g = G.lock().unwrap_or_else(|e| e.into_inner());
    match g.as_mut() {
        Some(c) if c.gen == MYGEN.get() => {
            c.st[me] = st;
            c.turn = None;
        }
        _ => {
            drop(g);
            loop {
                std::thread::park();
            }
        }
    }
    CV.notify_all();
    loop {
        {
            let stale = match g.as_ref() {
                None => true,
                Some(c) => c.gen != MYGEN.get(),
            };
            if stale {
                // this thread belongs to an abandoned run: it is leaked, blocked for ever
                drop(g);
                loop {
                    std::thread::park();
                }
            }
            let c = g.as_mut().unwrap();
            if c.turn == Some(me) {
                c.st[me] = St::Running;
                return;
            }
            if c.dead {
                // the run was abandoned (deadlock / budget): this thread is leaked, blocked for ever
                drop(g);
                loop {
                    std::thread::park();
                }
            }
        }
        g = CV.wait(g).unwrap_or_else(|e| e.into_inner());
    }
}

fn before(ev: &Ev) {
    match MODE.load(Ordering::Relaxed) {
        MODE_DET => {
            let me = ME.get();
            if me == usize::MAX || !keep(ev.site.file()) {
                return;
            }
            if NOYIELD.get() > 0 {
                return; // inside a lock-protected region: the operation is logged (`after`) but is no schedule point
            }
            yield_point(me, St::AtPoint);
        }
        MODE_LIVE => {
            if !keep(ev.site.file()) {
                return;
            }
            let d = DEPTH.get();
            if d > 0 {
                // a kept operation nested inside a kept operation of this thread (e.g. a value with hooked fields
                // dropped inside `opt.store`): it runs under the log lock the outer operation already holds
                DEPTH.set(d + 1);
                return;
            }
            let p = PERTURB.load(Ordering::Relaxed);
            if p > 0 && trnd() % 1000 < p {
                match trnd() % 4 {
                    0 => std::thread::yield_now(),
                    1 | 2 => std::thread::sleep(Duration::from_micros(20 + trnd() % 200)),
                    _ => std::thread::sleep(Duration::from_micros(500 + trnd() % 1500)),
                }
            }
            loglock();
            DEPTH.set(1);
        }
        _ => {}
    }
}

fn mk(actor: String, ev: &Ev, r: u64, flag: u8) -> Raw {
    Raw {
        actor,
        kind: "a",
        file: ev.site.file(),
        line: ev.site.line(),
        addr: ev.addr,
        op: ev.op.to_string(),
        arg: ev.arg,
        arg2: ev.arg2,
        res: r,
        flag,
        ord: ev.ord,
    }
}

fn after(ev: &Ev, r: u64, flag: u8) {
    // live mode: the log lock taken in `before` must be released whatever happened to MODE in between
    // (live_stop may flip it while this thread sleeps in the perturbation); only operations that `before` kept
    // take part (an operation of another layer nested inside a kept one must not take over its log slot)
    let d = DEPTH.get();
    if d > 0 {
        if !keep(ev.site.file()) {
            return;
        }
        if MODE.load(Ordering::Relaxed) == MODE_LIVE {
            LIVE_LOG.lock().unwrap_or_else(|e| e.into_inner()).push(mk(live_actor(), ev, r, flag));
            LIVE_EVENTS.fetch_add(1, Ordering::Relaxed);
        }
        DEPTH.set(d - 1);
        if d == 1 {
            logunlock();
        }
        return;
    }
    if MODE.load(Ordering::Relaxed) == MODE_DET {
        let me = ME.get();
        if me == usize::MAX || !keep(ev.site.file()) {
            return;
        }
        with(|c| {
            let a = c.names[me].clone();
            c.log.push(mk(a, ev, r, flag))
        });
    }
}

/// run `f` under the live log lock (re-entrant on the thread that already holds it inside a hooked operation)
fn with_loglock(f: impl FnOnce()) {
    if DEPTH.get() > 0 {
        f();
    } else {
        loglock();
        f();
        logunlock();
    }
}

fn blk(actor: String, op: &str, addr: usize, arg: u64, res: u64) -> Raw {
    Raw {
        actor,
        kind: "blk",
        file: "",
        line: 0,
        addr,
        op: op.to_string(),
        arg,
        arg2: 0,
        res,
        flag: 2,
        ord: 0,
    }
}

fn park(addr: usize, dur: Option<Duration>) -> Option<bool> {
    if MODE.load(Ordering::Relaxed) != MODE_DET {
        return None;
    }
    let me = ME.get();
    if me == usize::MAX {
        return None;
    }
    let ns = dur.map(|d| d.as_nanos() as u64);
    with(|c| {
        let a = c.names[me].clone();
        c.log.push(blk(a, "park_enter", addr, ns.is_some() as u64, 0))
    });
    yield_point(me, St::Parked(addr, ns));
    let ok = with(|c| {
        let ok = c.park_result[me];
        let a = c.names[me].clone();
        c.log.push(blk(a, "park_return", addr, 0, ok as u64));
        ok
    });
    Some(ok)
}

fn unpark(addr: usize) -> bool {
    if MODE.load(Ordering::Relaxed) != MODE_DET {
        return false;
    }
    let me = ME.get();
    if me == usize::MAX {
        return false;
    }
    yield_point(me, St::AtPoint);
    with(|c| {
        c.tokens.insert(addr, true);
        let a = c.names[me].clone();
        c.log.push(blk(a, "unpark", addr, 0, 0));
    });
    true
}

fn note_raw(actor: String, kind: &'static str, what: &str) -> Raw {
    Raw {
        actor,
        kind: "note",
        file: "",
        line: 0,
        addr: 0,
        op: format!("{kind} {what}"),
        arg: 0,
        arg2: 0,
        res: 0,
        flag: 2,
        ord: 0,
    }
}

fn note(kind: &'static str, what: &str) {
    if kind == "cs" {
        // lock-protected region entered / left (not logged)
        NOYIELD.set(if what == "enter" { NOYIELD.get() + 1 } else { NOYIELD.get().saturating_sub(1) });
        return;
    }
    match MODE.load(Ordering::Relaxed) {
        MODE_DET => {
            let me = ME.get();
            if me == usize::MAX {
                return;
            }
            with(|c| {
                if kind == "born" {
                    // a new heap object: virtual park tokens of a dead object at the same address must not leak into it
                    let mut it = what.split_whitespace();
                    let _k = it.next();
                    let p: usize = it.next().and_then(|s| s.parse().ok()).unwrap_or(0);
                    let sz: usize = it.next().and_then(|s| s.parse().ok()).unwrap_or(0);
                    c.tokens.retain(|a, _| *a < p || *a >= p + sz);
                }
                let a = c.names[me].clone();
                c.log.push(note_raw(a, kind, what))
            });
        }
        MODE_LIVE => {
            with_loglock(|| LIVE_LOG.lock().unwrap_or_else(|e| e.into_inner()).push(note_raw(live_actor(), kind, what)));
        }
        _ => {}
    }
}

fn now() -> Option<u64> {
    if MODE.load(Ordering::Relaxed) == MODE_DET && ME.get() != usize::MAX {
        Some(with(|c| c.vclock))
    } else {
        None
    }
}

static HOOKS: Hooks = Hooks {
    before,
    after,
    park,
    unpark,
    note,
    now,
};

pub fn install() {
    may::verif::install(&HOOKS);
}

// ---------------------------------------------------------------- API boundary events

fn api(kind: &'static str, name: &str, a1: u64, a2: u64) {
    let r = |actor: String| Raw {
        actor,
        kind,
        file: "",
        line: 0,
        addr: 0,
        op: name.to_string(),
        arg: a1,
        arg2: a2,
        res: 0,
        flag: 2,
        ord: 0,
    };
    match MODE.load(Ordering::Relaxed) {
        MODE_DET => {
            let me = ME.get();
            if me == usize::MAX {
                return;
            }
            with(|c| {
                let a = c.names[me].clone();
                c.log.push(r(a))
            });
        }
        MODE_LIVE => {
            with_loglock(|| LIVE_LOG.lock().unwrap_or_else(|e| e.into_inner()).push(r(live_actor())));
        }
        _ => {}
    }
}
/// the actor is about to call API `name`
pub fn call(name: &str, a1: u64, a2: u64) {
    api("call", name, a1, a2)
}
/// API `name` returned `res`
pub fn ret(name: &str, res: u64) {
    api("ret", name, res, 0)
}

/// API `name` returned a two-word result (e.g. an `Option<Duration>` as secs / subsec-nanos)
pub fn ret2(name: &str, a1: u64, a2: u64) {
    api("ret", name, a1, a2)
}

// ---------------------------------------------------------------- virtual clock (det mode), driven by a scenario

/// the virtual clock of the running det scenario (ns); `None` outside a det run / on a foreign thread
pub fn clock() -> Option<u64> {
    now()
}
/// set the virtual clock (must not go backwards: the code under test assumes a monotonic clock)
pub fn clock_set(ns: u64) {
    if MODE.load(Ordering::Relaxed) == MODE_DET && ME.get() != usize::MAX {
        with(|c| {
            assert!(ns >= c.vclock, "virtual clock must be monotonic");
            c.vclock = ns
        });
    }
}
/// advance the virtual clock by `ns`, returns the new reading
pub fn clock_advance(ns: u64) -> u64 {
    if MODE.load(Ordering::Relaxed) == MODE_DET && ME.get() != usize::MAX {
        with(|c| {
            c.vclock += ns;
            c.vclock
        })
    } else {
        0
    }
}

// ---------------------------------------------------------------- det controller

pub struct DetResult {
    pub log: Vec<Raw>,
    pub deadlock: Option<String>,
    pub budget_exceeded: bool,
    pub panics: Vec<String>,
    pub steps: usize,
    pub schedule: Vec<usize>,
    pub finished: Vec<bool>,
    pub decisions: Vec<Decision>,
}

pub struct Rng(pub u64);
impl Rng {
    pub fn new(seed: u64) -> Self {
        Rng(seed.wrapping_mul(0x9E3779B97F4A7C15) ^ 0xD1B54A32D192ED03 | 1)
    }
    pub fn next(&mut self) -> u64 {
        let mut x = self.0;
        x ^= x << 13;
        x ^= x >> 7;
        x ^= x << 17;
        self.0 = x;
        x.wrapping_mul(0x2545F4914F6CDD1D)
    }
    pub fn below(&mut self, n: u64) -> u64 {
        (self.next() >> 33) % n.max(1)
    }
    pub fn chance(&mut self, permille: u64) -> bool {
        self.below(1000) < permille
    }
}

/// how the controller picks the next actor
pub enum Sched<'a> {
    /// seeded random with stickiness (per-mille probability to keep running the same actor)
    /// and a per-mille probability to fire an enabled time-out instead of a normal step
    Random {
        rng: &'a mut Rng,
        sticky: u64,
        timeout_permille: u64,
    },
    /// explicit list of actor indices; when exhausted (or the wanted actor is not enabled) falls back to the first enabled
    Fixed(&'a [usize], usize),
    /// follow the prefix of (actor, is_timeout) choices, then run without preemption: keep the running actor while it
    /// is enabled, else the lowest enabled one (time-outs only when nothing else is enabled)
    Prefix(&'a [(usize, bool)], usize),
}

/// one scheduling decision of a finished run (for systematic exploration)
#[derive(Clone, Debug)]
pub struct Decision {
    pub enabled: Vec<usize>,
    pub timeouts: Vec<usize>,
    pub chosen: (usize, bool),
    pub last: Option<usize>,
}

pub type Actor = Box<dyn FnOnce() + Send + 'static>;

/// run the actors to completion under full serialisation
pub fn run_det(names: &[String], actors: Vec<Actor>, sched: &mut Sched, max_steps: usize) -> DetResult {
    let n = actors.len();
    let gen = GEN.fetch_add(1, Ordering::SeqCst);
    *G.lock().unwrap_or_else(|e| e.into_inner()) = Some(G {
        st: vec![St::NotStarted; n],
        names: names.to_vec(),
        turn: None,
        tokens: HashMap::new(),
        park_result: vec![false; n],
        vclock: 1_000_000_000,
        log: vec![],
        panics: vec![],
        dead: false,
        gen,
    });
    MODE.store(MODE_DET, Ordering::SeqCst);
    let mut hs = vec![];
    for (t, f) in actors.into_iter().enumerate() {
        let nm = names[t].clone();
        hs.push(
            std::thread::Builder::new()
                .name(nm.clone())
                .spawn(move || {
                    ME.set(t);
                    MYGEN.set(gen);
                    may::verif::push_actor(nm);
                    yield_point(t, St::AtPoint); // wait to be scheduled for the first time
                    let r = std::panic::catch_unwind(std::panic::AssertUnwindSafe(f));
                    let mut g = G.lock().unwrap_or_else(|e| e.into_inner());
                    {
                        let c = g.as_mut().unwrap();
                        if let Err(e) = r {
                            let msg = e
                                .downcast_ref::<String>()
                                .cloned()
                                .or(e.downcast_ref::<&str>().map(|s| s.to_string()))
                                .unwrap_or_else(|| "<non-string panic>".into());
                            c.panics.push(format!("{}: {}", c.names[t], msg));
                        }
                        c.st[t] = St::Finished;
                        c.turn = None;
                    }
                    ME.set(usize::MAX);
                    CV.notify_all();
                })
                .unwrap(),
        );
    }
    let mut steps = 0usize;
    let mut schedule = vec![];
    let mut decisions: Vec<Decision> = vec![];
    let mut last: Option<usize> = None;
    let mut deadlock = None;
    let mut budget = false;
    loop {
        let mut g = G.lock().unwrap_or_else(|e| e.into_inner());
        loop {
            let c = g.as_ref().unwrap();
            if c.turn.is_none() && c.st.iter().all(|s| !matches!(s, St::Running | St::NotStarted)) {
                break;
            }
            g = CV.wait(g).unwrap_or_else(|e| e.into_inner());
        }
        let c = g.as_mut().unwrap();
        // enabled normal steps and enabled time-outs
        let mut en = vec![];
        let mut tmo = vec![];
        for t in 0..n {
            match c.st[t] {
                St::AtPoint => en.push(t),
                St::Parked(a, d) => {
                    if *c.tokens.get(&a).unwrap_or(&false) {
                        en.push(t)
                    } else if d.is_some() {
                        tmo.push(t)
                    }
                }
                _ => {}
            }
        }
        if en.is_empty() && tmo.is_empty() {
            if c.st.iter().all(|s| *s == St::Finished) {
                break;
            }
            deadlock = Some(format!("{:?}", c.st));
            c.dead = true;
            CV.notify_all();
            break;
        }
        if steps >= max_steps {
            budget = true;
            c.dead = true;
            CV.notify_all();
            break;
        }
        let (t, is_timeout) = match sched {
            Sched::Random {
                rng,
                sticky,
                timeout_permille,
            } => {
                if en.is_empty() || (!tmo.is_empty() && rng.chance(*timeout_permille)) {
                    (tmo[rng.below(tmo.len() as u64) as usize], true)
                } else if last.map(|l| en.contains(&l)).unwrap_or(false) && rng.chance(*sticky) {
                    (last.unwrap(), false)
                } else {
                    (en[rng.below(en.len() as u64) as usize], false)
                }
            }
            Sched::Fixed(list, pos) => {
                let want = list.get(*pos).copied();
                *pos += 1;
                match want {
                    Some(w) if en.contains(&w) => (w, false),
                    Some(w) if tmo.contains(&w) => (w, true),
                    _ => {
                        if let Some(&t) = en.first() {
                            (t, false)
                        } else {
                            (tmo[0], true)
                        }
                    }
                }
            }
            Sched::Prefix(list, pos) => {
                let want = list.get(*pos).copied();
                *pos += 1;
                match want {
                    Some((w, false)) if en.contains(&w) => (w, false),
                    Some((w, true)) if tmo.contains(&w) => (w, true),
                    _ => {
                        if let Some(l) = last.filter(|l| en.contains(l)) {
                            (l, false)
                        } else if let Some(&t) = en.first() {
                            (t, false)
                        } else {
                            (tmo[0], true)
                        }
                    }
                }
            }
        };
        decisions.push(Decision { enabled: en.clone(), timeouts: tmo.clone(), chosen: (t, is_timeout), last });
        if let St::Parked(a, d) = c.st[t] {
            if is_timeout {
                c.park_result[t] = false;
                c.vclock += d.unwrap_or(0);
            } else {
                c.tokens.insert(a, false);
                c.park_result[t] = true;
            }
        }
        c.turn = Some(t);
        last = Some(t);
        schedule.push(t);
        steps += 1;
        drop(g);
        CV.notify_all();
    }
    let dead = deadlock.is_some() || budget;
    if !dead {
        for h in hs {
            let _ = h.join();
        }
    } // else: leaked threads stay blocked for ever
    MODE.store(MODE_OFF, Ordering::SeqCst);
    let c = G.lock().unwrap_or_else(|e| e.into_inner()).take().unwrap();
    // the leaked threads (if any) look at G again only through `dead`, which they have seen or will
    // never see; give them a fresh dead marker
    DetResult {
        finished: c.st.iter().map(|s| *s == St::Finished).collect(),
        log: c.log,
        deadlock,
        budget_exceeded: budget,
        panics: c.panics,
        steps,
        schedule,
        decisions,
    }
}
